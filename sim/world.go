package sim

import (
	"fmt"
	"reflect"
	"sort"
	"strings"
	"time"

	v1 "k8s.io/api/core/v1"
	"k8s.io/apimachinery/pkg/api/resource"
	metav1 "k8s.io/apimachinery/pkg/apis/meta/v1"
)

// Verdict is the environment's answer to one API call.
type Verdict int

const (
	OK   Verdict = iota // the call succeeds
	Fail                // the call returns an error and has no effect
	Kill                // the process dies at this call (panic with KillSentinel)
)

// KillSentinel is the panic value used for injected process deaths.
type KillSentinel struct{ Op, Target string }

// Decider answers every journaled API call. A nil Decider answers OK.
type Decider interface {
	Decide(op, target string) Verdict
}

// Operation names used in the journal and by fault injectors.
const (
	OpK8sGet      = "k8s.get"
	OpK8sUpdate   = "k8s.update"
	OpK8sDelete   = "k8s.delete"
	OpK8sList     = "k8s.list"
	OpListPods    = "k8s.listpods"
	OpListNodes   = "k8s.listnodes"
	OpDescribeASG = "asg.describe"
	OpSetDesired  = "asg.setdesired"
	OpTerminate   = "asg.terminate"
	OpAttach      = "asg.attach"
	OpTags        = "asg.tags"
	OpCreateFleet = "ec2.createfleet"
	OpStatus      = "ec2.status"
	OpDescribeIns = "ec2.describeinstances"
	OpTermIns     = "ec2.terminateinstances"
)

// IsWrite reports whether an operation changes the outside world.
func IsWrite(op string) bool {
	switch op {
	case OpK8sUpdate, OpK8sDelete, OpSetDesired, OpTerminate, OpAttach, OpTags, OpCreateFleet, OpTermIns:
		return true
	}
	return false
}

// Entry is one journaled API call.
type Entry struct {
	Seq    int
	T      time.Time // virtual time of the call
	Scan   int       // scan number (0 = before the first scan)
	Phase  string    // "build", "refresh", "group"
	Group  string    // node group being processed when the call was made ("" outside)
	Op     string
	Target string   // node name, ASG name or instance id
	Val    int64    // desired capacity / fleet total
	IDs    []string // instance ids carried by the call
	Sent   *v1.Node // object sent by an update
	Before *v1.Node // object in the store before an update / delete
	Dec    bool     // ShouldDecrementDesiredCapacity
	Extra  map[string]string
	Err    string // non-empty when the call returned an error
	// RealDesired is the ASG's true desired capacity just before the call (AWS calls only).
	RealDesired int64
}

func (e Entry) Write() bool   { return IsWrite(e.Op) }
func (e Entry) OKWrite() bool { return IsWrite(e.Op) && e.Err == "" }

func (e Entry) String() string {
	s := fmt.Sprintf("#%d t=%s scan=%d %s/%s %s(%s", e.Seq, e.T.UTC().Format("15:04:05"), e.Scan, e.Phase, e.Group, e.Op, e.Target)
	if e.Op == OpSetDesired || e.Op == OpCreateFleet {
		s += fmt.Sprintf(" val=%d", e.Val)
	}
	if len(e.IDs) > 0 {
		if len(e.IDs) > 6 {
			s += fmt.Sprintf(" ids=%d[%s..%s]", len(e.IDs), e.IDs[0], e.IDs[len(e.IDs)-1])
		} else {
			s += " ids=" + strings.Join(e.IDs, ",")
		}
	}
	s += ")"
	if e.Err != "" {
		s += " ERR=" + e.Err
	}
	return s
}

// AInst is an instance attached to an auto scaling group.
type AInst struct {
	ID string
	AZ string
}

// ASG is a simulated auto scaling group.
type ASG struct {
	Name      string
	Min       int64
	Max       int64
	Desired   int64
	Instances []AInst
	Subnets   string
	Tags      []string
	// Label the nodes of this group carry.
	LabelKey, LabelValue string
	// Allocatable of nodes launched into this group.
	CPUMilli int64
	MemBytes int64
}

// Inst is an EC2 instance.
type Inst struct {
	ID         string
	State      string // pending, running, terminated
	Launch     time.Time
	ASG        string // attached to
	Fleet      bool   // acquired through CreateFleet
	Registered bool   // a Node object was created for it
	ForASG     string // fleet instances: the group whose scale-up acquired them
}

// World is the whole simulated environment: Kubernetes API store, the informer view, AWS.
type World struct {
	Nodes []*v1.Node // API store, insertion order
	Pods  []*v1.Pod

	ViewNodes []*v1.Node // what the listers return
	// ViewTruth is parallel to ViewNodes: the pristine copy of what the informer cache received for
	// that entry. The listers hand out the *same* objects scan after scan until the API object changes
	// (shared informer semantics), so a caller that writes into a listed object corrupts its own
	// later scans; monitors judge by ViewTruth.
	ViewTruth []*v1.Node
	viewObj   map[string]*v1.Node
	viewSrc   map[string]*v1.Node
	ViewPods  []*v1.Pod

	ASGs []*ASG // sorted by name
	EC2  map[string]*Inst

	J      []Entry
	Scan   int
	Phase  string
	Groups []string // configured node group names, in controller order
	// GroupASG maps a node group name to the ASG backing it.
	GroupASG map[string]string
	// podLists counts pod List calls in the current scan: the k-th call starts group k.
	podLists int

	D Decider
	// AfterGet holds, per node name, a write another client makes right after escalator's next GET of
	// that node (one-shot).
	AfterGet map[string]func(n *v1.Node)
	rv       int
	// DescribeOmit, when set, names ASGs that a successful DescribeAutoScalingGroups answer leaves out.
	DescribeOmit func(asg string) bool

	// Fleet behaviour.
	ReadyFromPoll  int // instances report running from this poll on (1 = first poll); <0 never
	StatusPageSize int
	FleetSplit     int  // number of FleetInstances sets the answer is split into
	FleetErrors    bool // CreateFleet answers with errors and no instances
	// FleetShort: CreateFleet answers with this many instances fewer than asked for, together with an
	// error entry (partly fulfilled).
	FleetShort int
	// ReadyStagger: every other fleet instance becomes ready one poll later than ReadyFromPoll.
	ReadyStagger bool
	// ReadyHalfNever: fleet instances with an odd sequence number never become ready.
	ReadyHalfNever bool
	polls          int

	seqInst int
	seqPod  int
}

// NewWorld returns an empty world.
func NewWorld() *World {
	return &World{EC2: map[string]*Inst{}, GroupASG: map[string]string{}, AfterGet: map[string]func(*v1.Node){}, ReadyFromPoll: 1, StatusPageSize: 50, FleetSplit: 1, Phase: "build"}
}

func (w *World) decide(op, target string) Verdict {
	if w.D == nil {
		return OK
	}
	v := w.D.Decide(op, target)
	if v == Kill {
		panic(KillSentinel{op, target})
	}
	return v
}

func (w *World) group() string {
	if w.Phase != "group" {
		return ""
	}
	i := w.podLists - 1
	if i >= 0 && i < len(w.Groups) {
		return w.Groups[i]
	}
	return ""
}

func (w *World) log(e Entry) *Entry {
	e.Seq = len(w.J)
	e.T = time.Now()
	e.Scan = w.Scan
	e.Phase = w.Phase
	e.Group = w.group()
	w.J = append(w.J, e)
	return &w.J[len(w.J)-1]
}

// BeginScan marks the start of RunOnce.
func (w *World) BeginScan() {
	w.Scan++
	w.Phase = "refresh"
	w.podLists = 0
}

// EndScan marks the end of RunOnce.
func (w *World) EndScan() { w.Phase = "idle" }

// ScanEntries returns the journal entries of scan n.
func (w *World) ScanEntries(n int) []Entry {
	var out []Entry
	for _, e := range w.J {
		if e.Scan == n {
			out = append(out, e)
		}
	}
	return out
}

// ---------------------------------------------------------------------------------------------
// construction helpers

// AddASG adds an auto scaling group.
func (w *World) AddASG(a ASG) *ASG {
	if a.Subnets == "" {
		a.Subnets = "subnet-a"
	}
	if a.CPUMilli == 0 {
		a.CPUMilli = 1000
	}
	if a.MemBytes == 0 {
		a.MemBytes = 4 << 30
	}
	p := &a
	w.ASGs = append(w.ASGs, p)
	sort.Slice(w.ASGs, func(i, j int) bool { return w.ASGs[i].Name < w.ASGs[j].Name })
	return p
}

// FindASG returns the named group or nil.
func (w *World) FindASG(name string) *ASG {
	for _, a := range w.ASGs {
		if a.Name == name {
			return a
		}
	}
	return nil
}

// NodeOpt customises a node added to the initial world.
type NodeOpt struct {
	Age         time.Duration // creation time = now - Age
	ZeroCreated bool          // creation timestamp is the zero value
	Cordoned    bool
	TaintValue  *string // escalator taint with this value
	TaintAge    *time.Duration
	TaintEffect v1.TaintEffect // effect of the escalator taint set through TaintValue / TaintAge (default NoSchedule)
	ForceTaint  bool
	Annotation  string
	CPUMilli    int64
	MemBytes    int64
	NoAlloc     bool
	ProviderID  *string
	Foreign     []v1.Taint
}

func (w *World) newInstanceID(asg string) string {
	w.seqInst++
	return fmt.Sprintf("i-%s-%03d", asg, w.seqInst)
}

// azOf spreads instances over two zones (odd sequence numbers in az-b), so that the order of an
// ASG's instance list differs from the lexicographic order of the provider ids.
func azOf(id string) string {
	if len(id) > 0 && (id[len(id)-1]-'0')%2 == 1 {
		return "az-b"
	}
	return "az-a"
}

// NodeName gives the node name for an instance id.
func NodeName(instanceID string) string { return "n" + strings.TrimPrefix(instanceID, "i") }

// ProviderID gives the provider id the kubelet would report.
func ProviderID(az, instanceID string) string { return fmt.Sprintf("aws:///%s/%s", az, instanceID) }

// InstanceIDOf parses a well-formed provider id, "" otherwise.
func InstanceIDOf(providerID string) string {
	parts := strings.Split(providerID, "/")
	if len(parts) == 5 && parts[0] == "aws:" {
		return parts[4]
	}
	return ""
}

// AddNode launches an instance into the ASG (desired capacity grows with it) and registers its Node.
func (w *World) AddNode(asg *ASG, o NodeOpt) *v1.Node {
	id := w.newInstanceID(asg.Name)
	now := time.Now()
	asg.Instances = append(asg.Instances, AInst{ID: id, AZ: azOf(id)})
	asg.Desired++
	w.EC2[id] = &Inst{ID: id, State: "running", Launch: now.Add(-o.Age - 30*time.Second), ASG: asg.Name, Registered: true}
	n := w.makeNode(asg, id, now.Add(-o.Age))
	if o.ZeroCreated {
		n.CreationTimestamp = metav1.Time{}
	}
	n.Spec.Unschedulable = o.Cordoned
	n.Spec.Taints = append(n.Spec.Taints, o.Foreign...)
	eff := o.TaintEffect
	if eff == "" {
		eff = v1.TaintEffectNoSchedule
	}
	if o.TaintValue != nil {
		n.Spec.Taints = append(n.Spec.Taints, v1.Taint{Key: "atlassian.com/escalator", Value: *o.TaintValue, Effect: eff})
	} else if o.TaintAge != nil {
		n.Spec.Taints = append(n.Spec.Taints, v1.Taint{Key: "atlassian.com/escalator", Value: fmt.Sprint(now.Add(-*o.TaintAge).Unix()), Effect: eff})
	}
	if o.ForceTaint {
		n.Spec.Taints = append(n.Spec.Taints, v1.Taint{Key: "atlassian.com/escalator-force", Value: "x", Effect: v1.TaintEffectNoSchedule})
	}
	if o.Annotation != "" {
		n.Annotations = map[string]string{"atlassian.com/no-delete": o.Annotation}
	}
	if o.CPUMilli != 0 || o.MemBytes != 0 {
		n.Status.Allocatable = v1.ResourceList{
			v1.ResourceCPU:    *resource.NewMilliQuantity(o.CPUMilli, resource.DecimalSI),
			v1.ResourceMemory: *resource.NewQuantity(o.MemBytes, resource.BinarySI),
		}
	}
	if o.NoAlloc {
		n.Status.Allocatable = nil
	}
	if o.ProviderID != nil {
		n.Spec.ProviderID = *o.ProviderID
	}
	w.Nodes = append(w.Nodes, n)
	return n
}

// bumpRV gives the node object a new resource version.
func (w *World) bumpRV(n *v1.Node) {
	w.rv++
	n.ResourceVersion = fmt.Sprint(1000 + w.rv)
}

func (w *World) makeNode(asg *ASG, id string, created time.Time) *v1.Node {
	w.rv++
	return &v1.Node{
		ObjectMeta: metav1.ObjectMeta{
			Name:              NodeName(id),
			ResourceVersion:   fmt.Sprint(1000 + w.rv),
			Labels:            map[string]string{asg.LabelKey: asg.LabelValue},
			CreationTimestamp: metav1.NewTime(created),
		},
		Spec: v1.NodeSpec{ProviderID: ProviderID(azOf(id), id)},
		Status: v1.NodeStatus{
			Allocatable: v1.ResourceList{
				v1.ResourceCPU:    *resource.NewMilliQuantity(asg.CPUMilli, resource.DecimalSI),
				v1.ResourceMemory: *resource.NewQuantity(asg.MemBytes, resource.BinarySI),
			},
			// raw machine capacity, a little above what is allocatable (system reservations); kept on nodes
			// that report no allocatable yet
			Capacity: v1.ResourceList{
				v1.ResourceCPU:    *resource.NewMilliQuantity(asg.CPUMilli+100, resource.DecimalSI),
				v1.ResourceMemory: *resource.NewQuantity(asg.MemBytes+256<<20, resource.BinarySI),
			},
		},
	}
}

// PodOpt describes a pod to add.
type PodOpt struct {
	Node      string // bound node, "" = pending
	CPUMilli  int64
	MemBytes  int64
	Selector  map[string]string
	Affinity  *v1.Affinity
	DaemonSet bool
	Phase     v1.PodPhase
}

// AddPod adds a pod to the API store.
func (w *World) AddPod(o PodOpt) *v1.Pod {
	w.seqPod++
	p := &v1.Pod{
		ObjectMeta: metav1.ObjectMeta{Name: fmt.Sprintf("p%03d", w.seqPod), Namespace: "default"},
		Spec: v1.PodSpec{
			NodeName:     o.Node,
			NodeSelector: o.Selector,
			Containers: []v1.Container{{Name: "c", Resources: v1.ResourceRequirements{Requests: v1.ResourceList{
				v1.ResourceCPU:    *resource.NewMilliQuantity(o.CPUMilli, resource.DecimalSI),
				v1.ResourceMemory: *resource.NewQuantity(o.MemBytes, resource.BinarySI),
			}}}},
		},
	}
	p.Spec.Affinity = o.Affinity
	if o.DaemonSet {
		p.OwnerReferences = []metav1.OwnerReference{{Kind: "DaemonSet", Name: "ds"}}
	}
	p.Status.Phase = o.Phase
	if p.Status.Phase == "" {
		if o.Node == "" {
			p.Status.Phase = v1.PodPending
		} else {
			p.Status.Phase = v1.PodRunning
			p.Status.Conditions = []v1.PodCondition{{Type: v1.PodScheduled, Status: v1.ConditionTrue}}
		}
	}
	w.Pods = append(w.Pods, p)
	return p
}

// FindNode returns the node in the API store, or nil.
func (w *World) FindNode(name string) *v1.Node {
	for _, n := range w.Nodes {
		if n.Name == name {
			return n
		}
	}
	return nil
}

// RemovePod removes the i-th pod of the store.
func (w *World) RemovePod(i int) {
	w.Pods = append(w.Pods[:i:i], w.Pods[i+1:]...)
}

// ---------------------------------------------------------------------------------------------
// dynamics

// Sync copies the API store into the informer view (deep copies, store order).
func (w *World) Sync() {
	w.ViewNodes = make([]*v1.Node, len(w.Nodes))
	w.ViewTruth = make([]*v1.Node, len(w.Nodes))
	objs, srcs := make(map[string]*v1.Node, len(w.Nodes)), make(map[string]*v1.Node, len(w.Nodes))
	for i, n := range w.Nodes {
		key := n.Name + "/" + string(n.UID)
		if src, ok := w.viewSrc[key]; ok && reflect.DeepEqual(src, n) {
			// unchanged in the API since the cache received it: the cache still holds the same object
			w.ViewNodes[i], w.ViewTruth[i] = w.viewObj[key], src
		} else {
			w.ViewNodes[i], w.ViewTruth[i] = n.DeepCopy(), n.DeepCopy()
		}
		objs[key], srcs[key] = w.ViewNodes[i], w.ViewTruth[i]
	}
	w.viewObj, w.viewSrc = objs, srcs
	w.ViewPods = make([]*v1.Pod, len(w.Pods))
	for i, p := range w.Pods {
		w.ViewPods[i] = p.DeepCopy()
	}
}

// Settle lets the cloud and the cluster converge: ASGs launch instances up to their desired
// capacity, attached running instances register Node objects, Node objects whose instance is
// gone are garbage-collected together with the pods bound to them.
func (w *World) Settle() {
	now := time.Now()
	for _, a := range w.ASGs {
		for int64(len(a.Instances)) < a.Desired {
			id := w.newInstanceID(a.Name)
			a.Instances = append(a.Instances, AInst{ID: id, AZ: azOf(id)})
			w.EC2[id] = &Inst{ID: id, State: "running", Launch: now.Add(-20 * time.Second), ASG: a.Name}
		}
		for _, in := range a.Instances {
			inst := w.EC2[in.ID]
			if inst != nil && !inst.Registered && inst.State == "running" {
				inst.Registered = true
				w.Nodes = append(w.Nodes, w.makeNode(a, in.ID, now))
			}
		}
	}
	// garbage-collect nodes whose backing instance no longer exists / is terminated
	kept := w.Nodes[:0:0]
	gone := map[string]bool{}
	for _, n := range w.Nodes {
		id := InstanceIDOf(n.Spec.ProviderID)
		inst := w.EC2[id]
		if id != "" && inst != nil && inst.State == "terminated" {
			gone[n.Name] = true
			continue
		}
		kept = append(kept, n)
	}
	w.Nodes = kept
	// pods bound to nodes that do not exist are removed by the pod GC
	exists := map[string]bool{}
	for _, n := range w.Nodes {
		exists[n.Name] = true
	}
	pk := w.Pods[:0:0]
	for _, p := range w.Pods {
		if p.Spec.NodeName != "" && !exists[p.Spec.NodeName] {
			continue
		}
		pk = append(pk, p)
	}
	w.Pods = pk
}

// AddPendingInstance adds an instance to the ASG (desired capacity grows with it) that stays in the
// pending state: it never becomes a Node (a machine that fails to boot or to join the cluster).
func (w *World) AddPendingInstance(a *ASG) string {
	id := w.newInstanceID(a.Name)
	a.Instances = append(a.Instances, AInst{ID: id, AZ: azOf(id)})
	a.Desired++
	w.EC2[id] = &Inst{ID: id, State: "pending", Launch: time.Now(), ASG: a.Name}
	return id
}

// ReplaceInstance models the ASG replacing the instance behind a node (unhealthy, reclaimed spot
// capacity, AZ rebalance): the old instance is terminated, a new one takes its place in the ASG's
// instance list (desired capacity unchanged) and registers a fresh Node created now, untainted,
// without pods. With keepName the new Node object carries the old node's name.
func (w *World) ReplaceInstance(nodeName string, keepName bool) *v1.Node {
	for i, n := range w.Nodes {
		if n.Name != nodeName {
			continue
		}
		oldID := InstanceIDOf(n.Spec.ProviderID)
		for _, a := range w.ASGs {
			for j, in := range a.Instances {
				if in.ID != oldID {
					continue
				}
				if inst := w.EC2[oldID]; inst != nil {
					inst.State = "terminated"
				}
				id := w.newInstanceID(a.Name)
				a.Instances[j] = AInst{ID: id, AZ: azOf(id)}
				now := time.Now()
				w.EC2[id] = &Inst{ID: id, State: "running", Launch: now.Add(-30 * time.Second), ASG: a.Name, Registered: true}
				nn := w.makeNode(a, id, now)
				if keepName {
					nn.Name = nodeName
				}
				w.Nodes[i] = nn
				pk := w.Pods[:0:0]
				for _, p := range w.Pods {
					if p.Spec.NodeName != nodeName {
						pk = append(pk, p)
					}
				}
				w.Pods = pk
				return nn
			}
		}
	}
	return nil
}

// SeqInst is the instance-id counter (part of the canonical state: it names future instances).
func (w *World) SeqInst() int { return w.seqInst }

// CurrentGroup is the node group being processed right now ("" outside a group).
func (w *World) CurrentGroup() string { return w.group() }
