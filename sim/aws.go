package sim

import (
	"errors"
	"fmt"
	"sort"
	"strings"
	"time"

	awsapi "github.com/aws/aws-sdk-go/aws"
	"github.com/aws/aws-sdk-go/aws/awserr"
	"github.com/aws/aws-sdk-go/service/autoscaling"
	"github.com/aws/aws-sdk-go/service/autoscaling/autoscalingiface"
	"github.com/aws/aws-sdk-go/service/ec2"
	"github.com/aws/aws-sdk-go/service/ec2/ec2iface"
)

// ASGAPI implements the part of the auto scaling API escalator uses. Calling anything else
// dereferences the nil embedded interface and panics, which the harness reports.
type ASGAPI struct {
	autoscalingiface.AutoScalingAPI
	W *World
}

// EC2API implements the part of the EC2 API escalator uses.
type EC2API struct {
	ec2iface.EC2API
	W *World
}

func (w *World) describe(a *ASG) *autoscaling.Group {
	g := &autoscaling.Group{
		AutoScalingGroupName: awsapi.String(a.Name),
		MinSize:              awsapi.Int64(a.Min),
		MaxSize:              awsapi.Int64(a.Max),
		DesiredCapacity:      awsapi.Int64(a.Desired),
		VPCZoneIdentifier:    awsapi.String(a.Subnets),
	}
	for _, in := range a.Instances {
		g.Instances = append(g.Instances, &autoscaling.Instance{InstanceId: awsapi.String(in.ID), AvailabilityZone: awsapi.String(in.AZ)})
	}
	for _, t := range a.Tags {
		g.Tags = append(g.Tags, &autoscaling.TagDescription{Key: awsapi.String(t), Value: awsapi.String("true")})
	}
	return g
}

// DescribeAutoScalingGroups returns a fresh snapshot of the requested groups, sorted by name.
func (s ASGAPI) DescribeAutoScalingGroups(in *autoscaling.DescribeAutoScalingGroupsInput) (*autoscaling.DescribeAutoScalingGroupsOutput, error) {
	w := s.W
	names := awsapi.StringValueSlice(in.AutoScalingGroupNames)
	sort.Strings(names)
	target := ""
	if len(names) == 1 {
		target = names[0]
	}
	e := w.log(Entry{Op: OpDescribeASG, Target: target, IDs: names})
	if w.decide(OpDescribeASG, target) == Fail {
		e.Err = "injected"
		return nil, awserr.New("Throttling", "injected DescribeAutoScalingGroups failure", nil)
	}
	out := &autoscaling.DescribeAutoScalingGroupsOutput{}
	for _, n := range names {
		if w.DescribeOmit != nil && w.DescribeOmit(n) {
			continue // a successful answer that leaves a requested group out (partial answer)
		}
		if a := w.FindASG(n); a != nil {
			out.AutoScalingGroups = append(out.AutoScalingGroups, w.describe(a))
		}
	}
	return out, nil
}

// SetDesiredCapacity sets the desired capacity if it is within [min, max].
func (s ASGAPI) SetDesiredCapacity(in *autoscaling.SetDesiredCapacityInput) (*autoscaling.SetDesiredCapacityOutput, error) {
	w := s.W
	name := awsapi.StringValue(in.AutoScalingGroupName)
	v := awsapi.Int64Value(in.DesiredCapacity)
	a := w.FindASG(name)
	e := w.log(Entry{Op: OpSetDesired, Target: name, Val: v})
	if a != nil {
		e.RealDesired = a.Desired
	}
	if w.decide(OpSetDesired, name) == Fail {
		e.Err = "injected"
		return nil, awserr.New("Throttling", "injected SetDesiredCapacity failure", nil)
	}
	if a == nil {
		e.Err = "nogroup"
		return nil, errors.New("ValidationError: AutoScalingGroup name not found")
	}
	if v < a.Min || v > a.Max {
		e.Err = "outofbounds"
		return nil, fmt.Errorf("ValidationError: New SetDesiredCapacity value %d is outside [%d, %d]", v, a.Min, a.Max)
	}
	a.Desired = v
	return &autoscaling.SetDesiredCapacityOutput{}, nil
}

// TerminateInstanceInAutoScalingGroup terminates one member instance.
func (s ASGAPI) TerminateInstanceInAutoScalingGroup(in *autoscaling.TerminateInstanceInAutoScalingGroupInput) (*autoscaling.TerminateInstanceInAutoScalingGroupOutput, error) {
	w := s.W
	id := awsapi.StringValue(in.InstanceId)
	dec := awsapi.BoolValue(in.ShouldDecrementDesiredCapacity)
	var a *ASG
	idx := -1
	for _, g := range w.ASGs {
		for i, m := range g.Instances {
			if m.ID == id {
				a, idx = g, i
			}
		}
	}
	e := w.log(Entry{Op: OpTerminate, Target: id, IDs: []string{id}, Dec: dec})
	if a != nil {
		e.RealDesired = a.Desired
		if e.Extra == nil {
			e.Extra = map[string]string{}
		}
		e.Extra["asg"] = a.Name
	}
	if w.decide(OpTerminate, id) == Fail {
		e.Err = "injected"
		return nil, awserr.New("Throttling", "injected TerminateInstanceInAutoScalingGroup failure", nil)
	}
	if a == nil {
		e.Err = "notmember"
		return nil, errors.New("ValidationError: Instance Id not found")
	}
	if dec && a.Desired-1 < a.Min {
		e.Err = "belowmin"
		return nil, errors.New("ValidationError: Currently, desiredSize equals minSize. Terminating instance without replacement will violate group's min size constraint")
	}
	a.Instances = append(a.Instances[:idx:idx], a.Instances[idx+1:]...)
	if dec {
		a.Desired--
	}
	if inst := w.EC2[id]; inst != nil {
		inst.State = "terminated"
		inst.ASG = ""
	}
	return &autoscaling.TerminateInstanceInAutoScalingGroupOutput{Activity: &autoscaling.Activity{Description: awsapi.String("Terminating EC2 instance: " + id)}}, nil
}

// AttachInstances attaches running, unattached instances and raises the desired capacity.
func (s ASGAPI) AttachInstances(in *autoscaling.AttachInstancesInput) (*autoscaling.AttachInstancesOutput, error) {
	w := s.W
	name := awsapi.StringValue(in.AutoScalingGroupName)
	ids := awsapi.StringValueSlice(in.InstanceIds)
	a := w.FindASG(name)
	e := w.log(Entry{Op: OpAttach, Target: name, IDs: append([]string(nil), ids...)})
	if a != nil {
		e.RealDesired = a.Desired
	}
	if w.decide(OpAttach, name) == Fail {
		e.Err = "injected"
		return nil, awserr.New("Throttling", "injected AttachInstances failure", nil)
	}
	if a == nil {
		e.Err = "nogroup"
		return nil, errors.New("ValidationError: AutoScalingGroup name not found")
	}
	if len(ids) == 0 || len(ids) > 20 {
		e.Err = "batchsize"
		return nil, errors.New("ValidationError: between 1 and 20 instance ids required")
	}
	seen := map[string]bool{}
	for _, id := range ids {
		inst := w.EC2[id]
		if inst == nil || inst.State != "running" || inst.ASG != "" || seen[id] {
			e.Err = "badinstance"
			return nil, fmt.Errorf("ValidationError: instance %s cannot be attached", id)
		}
		seen[id] = true
	}
	if a.Desired+int64(len(ids)) > a.Max {
		e.Err = "outofbounds"
		return nil, errors.New("ValidationError: attaching would exceed the group's max size")
	}
	for _, id := range ids {
		a.Instances = append(a.Instances, AInst{ID: id, AZ: azOf(id)})
		w.EC2[id].ASG = name
	}
	a.Desired += int64(len(ids))
	return &autoscaling.AttachInstancesOutput{}, nil
}

// CreateOrUpdateTags tags a group.
func (s ASGAPI) CreateOrUpdateTags(in *autoscaling.CreateOrUpdateTagsInput) (*autoscaling.CreateOrUpdateTagsOutput, error) {
	w := s.W
	name := ""
	if len(in.Tags) > 0 {
		name = awsapi.StringValue(in.Tags[0].ResourceId)
	}
	e := w.log(Entry{Op: OpTags, Target: name})
	if w.decide(OpTags, name) == Fail {
		e.Err = "injected"
		return nil, awserr.New("Throttling", "injected CreateOrUpdateTags failure", nil)
	}
	if a := w.FindASG(name); a != nil {
		for _, t := range in.Tags {
			a.Tags = append(a.Tags, awsapi.StringValue(t.Key))
		}
	}
	return &autoscaling.CreateOrUpdateTagsOutput{}, nil
}

// CreateFleet acquires exactly the requested number of instances (type instant, all or nothing).
func (s EC2API) CreateFleet(in *ec2.CreateFleetInput) (*ec2.CreateFleetOutput, error) {
	w := s.W
	total := int64(0)
	extra := map[string]string{"type": awsapi.StringValue(in.Type)}
	if in.TargetCapacitySpecification != nil {
		total = awsapi.Int64Value(in.TargetCapacitySpecification.TotalTargetCapacity)
		extra["lifecycle"] = awsapi.StringValue(in.TargetCapacitySpecification.DefaultTargetCapacityType)
	}
	if in.OnDemandOptions != nil {
		extra["ondemand.min"] = fmt.Sprint(awsapi.Int64Value(in.OnDemandOptions.MinTargetCapacity))
	}
	if in.SpotOptions != nil {
		extra["spot.min"] = fmt.Sprint(awsapi.Int64Value(in.SpotOptions.MinTargetCapacity))
	}
	nover := 0
	var ovl []string
	for _, c := range in.LaunchTemplateConfigs {
		nover += len(c.Overrides)
		for _, o := range c.Overrides {
			ovl = append(ovl, awsapi.StringValue(o.SubnetId)+"/"+awsapi.StringValue(o.InstanceType))
		}
		if c.LaunchTemplateSpecification != nil {
			extra["lt"] = awsapi.StringValue(c.LaunchTemplateSpecification.LaunchTemplateId) + ":" + awsapi.StringValue(c.LaunchTemplateSpecification.Version)
		}
	}
	extra["overrides"] = fmt.Sprint(nover)
	sort.Strings(ovl)
	extra["override-list"] = strings.Join(ovl, ",")
	extra["tagged"] = fmt.Sprint(len(in.TagSpecifications) > 0)
	grp := w.group()
	e := w.log(Entry{Op: OpCreateFleet, Target: grp, Val: total, Extra: extra})
	if a := w.FindASG(w.GroupASG[grp]); a != nil {
		e.RealDesired = a.Desired
	}
	if w.decide(OpCreateFleet, grp) == Fail {
		e.Err = "injected"
		return nil, awserr.New("RequestLimitExceeded", "injected CreateFleet failure", nil)
	}
	if w.FleetErrors {
		e.Err = "fleeterrors"
		return &ec2.CreateFleetOutput{Errors: []*ec2.CreateFleetError{{ErrorCode: awsapi.String("InsufficientInstanceCapacity"), ErrorMessage: awsapi.String("insufficient capacity")}}}, nil
	}
	w.polls = 0
	now := time.Now()
	ids := make([]*string, 0, total)
	got := total
	if w.FleetShort > 0 && int64(w.FleetShort) < total {
		got = total - int64(w.FleetShort)
		extra["short"] = fmt.Sprint(w.FleetShort)
	}
	for i := int64(0); i < got; i++ {
		id := w.newInstanceID("fleet")
		w.EC2[id] = &Inst{ID: id, State: "pending", Launch: now, Fleet: true}
		ids = append(ids, awsapi.String(id))
		e.IDs = append(e.IDs, id)
	}
	out := &ec2.CreateFleetOutput{FleetId: awsapi.String("fleet-1")}
	if got < total {
		out.Errors = []*ec2.CreateFleetError{{ErrorCode: awsapi.String("InsufficientInstanceCapacity"), ErrorMessage: awsapi.String("insufficient capacity for part of the request")}}
	}
	split := w.FleetSplit
	if split < 1 {
		split = 1
	}
	per := (len(ids) + split - 1) / split
	if per == 0 {
		per = 1
	}
	for i := 0; i < len(ids); i += per {
		j := i + per
		if j > len(ids) {
			j = len(ids)
		}
		out.Instances = append(out.Instances, &ec2.CreateFleetInstance{InstanceIds: ids[i:j:j]})
	}
	return out, nil
}

// DescribeInstanceStatusPages pages through the status of the requested instances.
func (s EC2API) DescribeInstanceStatusPages(in *ec2.DescribeInstanceStatusInput, fn func(*ec2.DescribeInstanceStatusOutput, bool) bool) error {
	w := s.W
	w.polls++
	ids := awsapi.StringValueSlice(in.InstanceIds)
	e := w.log(Entry{Op: OpStatus, Val: int64(w.polls), Extra: map[string]string{"n": fmt.Sprint(len(ids))}})
	if w.decide(OpStatus, "") == Fail {
		e.Err = "injected"
		return awserr.New("RequestLimitExceeded", "injected DescribeInstanceStatus failure", nil)
	}
	if w.ReadyFromPoll > 0 {
		for i, id := range ids {
			from := w.ReadyFromPoll
			if w.ReadyStagger && staggered(id) {
				from++
			}
			_ = i
			if w.ReadyHalfNever && staggered(id) {
				continue
			}
			if inst := w.EC2[id]; inst != nil && inst.State == "pending" && w.polls >= from {
				inst.State = "running"
			}
		}
	}
	ps := w.StatusPageSize
	if ps < 1 {
		ps = 50
	}
	if len(ids) == 0 {
		fn(&ec2.DescribeInstanceStatusOutput{}, true)
		return nil
	}
	for i := 0; i < len(ids); i += ps {
		j := i + ps
		if j > len(ids) {
			j = len(ids)
		}
		page := &ec2.DescribeInstanceStatusOutput{}
		for _, id := range ids[i:j] {
			st := "pending"
			if inst := w.EC2[id]; inst != nil {
				st = inst.State
			}
			page.InstanceStatuses = append(page.InstanceStatuses, &ec2.InstanceStatus{InstanceId: awsapi.String(id), InstanceState: &ec2.InstanceState{Name: awsapi.String(st)}})
		}
		if !fn(page, j == len(ids)) {
			return nil
		}
	}
	return nil
}

// DescribeInstances answers for a single known instance.
func (s EC2API) DescribeInstances(in *ec2.DescribeInstancesInput) (*ec2.DescribeInstancesOutput, error) {
	w := s.W
	ids := awsapi.StringValueSlice(in.InstanceIds)
	target := ""
	if len(ids) > 0 {
		target = ids[0]
	}
	e := w.log(Entry{Op: OpDescribeIns, Target: target, IDs: ids})
	if w.decide(OpDescribeIns, target) == Fail {
		e.Err = "injected"
		return nil, awserr.New("RequestLimitExceeded", "injected DescribeInstances failure", nil)
	}
	out := &ec2.DescribeInstancesOutput{}
	for _, id := range ids {
		inst := w.EC2[id]
		if inst == nil {
			e.Err = "notfound"
			return nil, fmt.Errorf("InvalidInstanceID.NotFound: %s", id)
		}
		lt := inst.Launch
		out.Reservations = append(out.Reservations, &ec2.Reservation{Instances: []*ec2.Instance{{InstanceId: awsapi.String(id), LaunchTime: &lt}}})
	}
	return out, nil
}

// TerminateInstances records the ids submitted for termination and terminates them.
func (s EC2API) TerminateInstances(in *ec2.TerminateInstancesInput) (*ec2.TerminateInstancesOutput, error) {
	w := s.W
	ids := awsapi.StringValueSlice(in.InstanceIds)
	e := w.log(Entry{Op: OpTermIns, IDs: append([]string(nil), ids...)})
	if w.decide(OpTermIns, "") == Fail {
		e.Err = "injected"
		return nil, awserr.New("RequestLimitExceeded", "injected TerminateInstances failure", nil)
	}
	for _, id := range ids {
		if inst := w.EC2[id]; inst != nil {
			inst.State = "terminated"
		}
	}
	return &ec2.TerminateInstancesOutput{}, nil
}

// staggered: instances with an odd sequence number come up one poll later.
func staggered(id string) bool {
	if len(id) == 0 {
		return false
	}
	return (id[len(id)-1]-'0')%2 == 1
}

// NeverReadyUnderHalf reports whether ReadyHalfNever keeps this instance from ever becoming ready.
func NeverReadyUnderHalf(id string) bool { return staggered(id) }
