package sim

import (
	"errors"

	v1 "k8s.io/api/core/v1"
	apierrors "k8s.io/apimachinery/pkg/api/errors"
	"k8s.io/apimachinery/pkg/labels"
	"k8s.io/apimachinery/pkg/runtime"
	"k8s.io/apimachinery/pkg/runtime/schema"
	"k8s.io/client-go/kubernetes"
	"k8s.io/client-go/kubernetes/fake"
	v1lister "k8s.io/client-go/listers/core/v1"
	k8stesting "k8s.io/client-go/testing"
)

var nodeGR = schema.GroupResource{Resource: "nodes"}

// Client returns a kubernetes.Interface whose node get / update / delete calls are served from the
// world's API store, journaled, and subject to the world's Decider.
func (w *World) Client() kubernetes.Interface {
	cs := &fake.Clientset{}
	cs.AddReactor("get", "nodes", func(a k8stesting.Action) (bool, runtime.Object, error) {
		name := a.(k8stesting.GetAction).GetName()
		e := w.log(Entry{Op: OpK8sGet, Target: name})
		if w.decide(OpK8sGet, name) == Fail {
			e.Err = "injected"
			return true, nil, errors.New("injected get failure")
		}
		n := w.FindNode(name)
		if n == nil {
			e.Err = "notfound"
			return true, nil, apierrors.NewNotFound(nodeGR, name)
		}
		e.Before = n.DeepCopy()
		out := n.DeepCopy()
		if hook := w.AfterGet[name]; hook != nil {
			// another client writes the node right after this read (the copy handed out is already stale)
			delete(w.AfterGet, name)
			hook(n)
			w.bumpRV(n)
		}
		return true, out, nil
	})
	cs.AddReactor("update", "nodes", func(a k8stesting.Action) (bool, runtime.Object, error) {
		obj := a.(k8stesting.UpdateAction).GetObject().(*v1.Node)
		e := w.log(Entry{Op: OpK8sUpdate, Target: obj.Name, Sent: obj.DeepCopy()})
		if cur := w.FindNode(obj.Name); cur != nil {
			e.Before = cur.DeepCopy()
		}
		if w.decide(OpK8sUpdate, obj.Name) == Fail {
			e.Err = "injected"
			if e.Before != nil && obj.ResourceVersion != "" && obj.ResourceVersion != e.Before.ResourceVersion {
				e.Err = "conflict" // it would have been refused as stale anyway
			}
			return true, nil, errors.New("injected update failure")
		}
		for i, n := range w.Nodes {
			if n.Name == obj.Name {
				// optimistic concurrency: an update that carries a resource version must carry the current one
				if obj.ResourceVersion != "" && obj.ResourceVersion != n.ResourceVersion {
					e.Err = "conflict"
					return true, nil, apierrors.NewConflict(nodeGR, obj.Name, errors.New("the object has been modified; please apply your changes to the latest version and try again"))
				}
				stored := obj.DeepCopy()
				w.bumpRV(stored)
				w.Nodes[i] = stored
				return true, stored.DeepCopy(), nil
			}
		}
		e.Err = "notfound"
		return true, nil, apierrors.NewNotFound(nodeGR, obj.Name)
	})
	cs.AddReactor("delete", "nodes", func(a k8stesting.Action) (bool, runtime.Object, error) {
		name := a.(k8stesting.DeleteAction).GetName()
		e := w.log(Entry{Op: OpK8sDelete, Target: name})
		if cur := w.FindNode(name); cur != nil {
			e.Before = cur.DeepCopy()
		}
		if w.decide(OpK8sDelete, name) == Fail {
			e.Err = "injected"
			return true, nil, errors.New("injected delete failure")
		}
		for i, n := range w.Nodes {
			if n.Name == name {
				w.Nodes = append(w.Nodes[:i:i], w.Nodes[i+1:]...)
				return true, nil, nil
			}
		}
		e.Err = "notfound"
		return true, nil, apierrors.NewNotFound(nodeGR, name)
	})
	// direct (uncached) list calls: escalator does not make them today, but the API server answers them
	cs.AddReactor("list", "nodes", func(a k8stesting.Action) (bool, runtime.Object, error) {
		w.log(Entry{Op: OpK8sList, Target: "nodes"})
		out := &v1.NodeList{}
		for _, n := range w.Nodes {
			out.Items = append(out.Items, *n.DeepCopy())
		}
		return true, out, nil
	})
	cs.AddReactor("list", "pods", func(a k8stesting.Action) (bool, runtime.Object, error) {
		w.log(Entry{Op: OpK8sList, Target: "pods"})
		out := &v1.PodList{}
		for _, p := range w.Pods {
			out.Items = append(out.Items, *p.DeepCopy())
		}
		return true, out, nil
	})
	cs.AddReactor("*", "*", func(a k8stesting.Action) (bool, runtime.Object, error) {
		w.log(Entry{Op: "k8s.other", Target: a.GetVerb() + " " + a.GetResource().Resource, Err: "unexpected"})
		return true, nil, errors.New("unexpected kubernetes call")
	})
	return cs
}

// PodLister is the backing "all pods" lister over the view.
type PodLister struct{ W *World }

// List returns the view's pods. Every call marks the start of the next node group.
func (l PodLister) List(labels.Selector) ([]*v1.Pod, error) {
	w := l.W
	if w.Phase == "refresh" || w.Phase == "group" {
		w.Phase = "group"
		w.podLists++
	}
	w.log(Entry{Op: OpListPods})
	if w.decide(OpListPods, w.group()) == Fail {
		w.J[len(w.J)-1].Err = "injected"
		return nil, errors.New("injected list failure")
	}
	return append([]*v1.Pod(nil), w.ViewPods...), nil
}

// Pods is not used by escalator.
func (l PodLister) Pods(string) v1lister.PodNamespaceLister { panic("PodLister.Pods: not used") }

// NodeLister is the backing "all nodes" lister over the view.
type NodeLister struct{ W *World }

// List returns the view's nodes.
func (l NodeLister) List(labels.Selector) ([]*v1.Node, error) {
	w := l.W
	w.log(Entry{Op: OpListNodes})
	if w.decide(OpListNodes, w.group()) == Fail {
		w.J[len(w.J)-1].Err = "injected"
		return nil, errors.New("injected list failure")
	}
	return append([]*v1.Node(nil), w.ViewNodes...), nil
}

// Get is not used by escalator.
func (l NodeLister) Get(string) (*v1.Node, error) { panic("NodeLister.Get: not used") }
