// Package sim is the closed, deterministic environment the real escalator code runs against.
package sim

import (
	_ "github.com/atlassian/escalator/pkg/controller"
	_ "k8s.io/client-go/kubernetes/fake"
)
