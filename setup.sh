#!/bin/bash
# Offline set-up: warm the Go build cache for the checker (code under test + simulators) so that
# each check's rebuild is incremental. Nothing is fetched.
set -eu
cd "$(dirname "$0")"
export GOFLAGS=-mod=mod GOPROXY=off GOSUMDB=off GOTOOLCHAIN=local CGO_ENABLED=0
mkdir -p .build evidence replays
go1.26.8 test -c -tags verif -vet=off -o .build/mc.setup.test .
rm -f .build/mc.setup.test
echo "setup ok"
