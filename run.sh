#!/bin/bash
# usage: ./run.sh <property-id> quick|thorough      run one property's check
#        ./run.sh replay <replay-file>               re-execute one recorded violation
# Rebuilds the checker from /repo's current working tree (build tag verif) on every call.
set -u
cd "$(dirname "$0")"
export GOFLAGS=-mod=mod GOPROXY=off GOSUMDB=off GOTOOLCHAIN=local CGO_ENABLED=0
GO=${VERIF_GO:-go1.26.8}
mkdir -p .build evidence replays
BIN=.build/mc.$$.test
trap 'rm -f "$BIN"' EXIT
OVERLAY=()
if [ -n "${VERIF_OVERLAY:-}" ]; then OVERLAY=(-overlay "$VERIF_OVERLAY"); fi
build() { $GO test -c -tags verif -vet=off "${OVERLAY[@]}" -o "$BIN" . 2> .build/build.$$.log; }
# one retry: a build that fails for a reason outside the sources (cache being trimmed, file system busy)
# is not a verdict on anything
if ! build && { sleep 3; ! build; }; then
  echo "HARNESS-ERROR: build failed" >&2; cat .build/build.$$.log >&2; rm -f .build/build.$$.log; exit 2
fi
rm -f .build/build.$$.log
if [ "${1:-}" = replay ]; then
  VERIF_ROLE=replay VERIF_REPLAY="$2" "$BIN" -test.run '^TestReplay$' -test.v | grep -v -e '^=== RUN' -e '^--- ' -e '^PASS' -e '^ok'
  exit 0
fi
VERIF_PROP="$1" VERIF_TIER="${2:-quick}" VERIF_DIR="$PWD" "$BIN"
