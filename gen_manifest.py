#!/usr/bin/env python3
"""Regenerates MANIFEST.json from the table below (kept next to the checks so it stays current)."""
import json, subprocess
ALL = ["C%02d" % i for i in range(1, 21)]
H = "deviation-bounded exhaustive DFS (stateless, prefix replay) over scan histories of the real controller under virtual time, with canonical-state revisit pruning"
NOTE = "Simulated Kubernetes/AWS (sim/), synctest virtual clock, go1.26.8 build of /repo with -tags verif; informer wiring, leader election and main() outside the boundary."
G = "bounded-exhaustive enumeration of a stated finite grid, each case executed on the real code and compared with an exact reference"
def hc(design, text, engine="H", level="model_checking", technique=H, note=NOTE):
    return dict(level=level, design=design, technique=technique, text=text, note=note, engine=engine)
CHECKS = {
 "C01": hc("3/C01", "Every history of 9 scans with at most 2 (quick) / 3 (thorough) environment deviations or injected API faults/kills over the stated alphabet is executed on the real controller and AWS provider; the removal-safety predicate is evaluated on every terminate/delete call of every scan. The property quantifies over histories, restarts and fault points, and the implementation itself is cheap enough to enumerate."),
 "C02": hc("3/C02", "All 9-scan histories (<= 2 quick / 3 thorough deviations) from 200 % utilisation with a 3-scan cool-down, in SetDesiredCapacity and fleet mode, including below-minimum, force-tainted and expired nodes inside the window, rejected requests and restarts: no write for the group inside the window reconstructed from the journal, and action resumes once it has elapsed."),
 "C03": hc("3/C03", "Complete grid of small cluster states x rates x bands x configured/auto-discovered minimum over three consecutive real scans, plus the taint-bound and restore oracles on the C01/C02 history scenarios.", engine="G+H", technique=G+"; plus "+H),
 "C04": hc("3/C04", "Complete grid of (max_nodes, cloud max) pairs x nodes x tainted x utilisation x mode x kind on single real scans, plus the bound and clamp oracles along the C02 histories: every requested target <= min(max_nodes, cloud max), landing exactly on it when clamped, no request without headroom.", engine="G+H", technique=G+"; plus "+H),
 "C06": hc("3/C06", "Complete grid of states x threshold triples x rate pairs x exact utilisation at band interiors and at every threshold exactly and +/-1 unit (CPU- and memory-driven), starve and max-age triggers, on single real scans against an exact-rational reference; plus the band oracle along the C01/C02 histories.", engine="G+H", technique=G+"; plus "+H),
 "C07": hc("3/C07", "Every single-scan case of the need x tainted-age-pattern x list-order x force-removal x clamp x mode grid, each explored with every failing get/update position of the untaint loop (deviation-bounded DFS): newest-first reuse, remainder requested on top of the real desired size, no purchase while a tainted node is available."),
 "C09": hc("3/C09", "All 9-scan histories (<= 2 / 3 deviations) with cordon/uncordon of any node at any point of its life; no write reaches a node cordoned in the view and every decision equals the reference computed without cordoned capacity (odd-sized cordoned nodes make counting them visible)."),
 "C10": hc("3/C10", "All 9-scan histories (<= 2 / 3 deviations) with the annotation set/emptied/removed at any slot; safety predicate on every removal plus a metamorphic twin execution without annotations: identical taint/untaint/cloud actions, removals differing exactly by the protected nodes."),
 "C11": hc("3/C11", "All histories (<= 2 / 3 deviations) driving a dry group through every decision branch with either switch, with tagging, auto-discovery and from zero nodes: empty write journal from provider construction on; A dry / B live compared with a twin in which A is live."),
 "C12": hc("3/C12", "All 6-scan histories (<= 2 / 3 deviations or faults confined to group a) over 2 and 3 groups in every processing order including the default group: write attribution, and every other group's journal equal to the unperturbed execution; only the not-in-group condition may abort the loop, every group is processed in every error-free scan, every group's decisions equal the reference computed from its own pods and nodes, and cmd/main.go's per-group provider configuration (through the start-up probe) depends on that group's options only.", engine="G+H", technique=H+"; plus "+G),
 "C05": hc("3/C05", "Bounded-exhaustive sweep of the real percent and delta arithmetic over node counts x node sizes x thresholds 1..100,120,150,200 x requests exactly on and +/-1 unit around every point where the minimal node count changes (CPU-, memory-bound, both; plus clusters of 100..1000 big nodes), with an exact integer oracle; end-to-end: single scans of mixed groups, scale-from-zero mini-histories (node size changing before the group drains), and mixed groups explored with every failing untaint write and with the max-age trigger coinciding with high utilisation.", engine="G+H", technique=G+"; plus "+H),
 "C08": hc("3/C08", "Every creation-time assignment x list order x taint count for up to 4 (5) nodes, each explored with a failure at every get/update position of the taint loop (deviation-bounded DFS): no untainted, non-failed node is strictly older than a tainted one."),
 "C13": hc("3/C13", "Every pod shape of a 1922-shape universe, pairs/triples over stated sub-universes, every node multiset, in every permutation, through the real calculators against an independent exact parser; end-to-end gauge read-back over every order of a mixed node list (pods bound anywhere, terminating, dry groups), and decisions one unit off / exactly on every threshold.", engine="G", level="exploration", technique=G),
 "C14": hc("3/C14", "Every pod shape of a ~240k-shape universe (selectors x affinity structures x owners x static annotation) and 7 node label maps through the real filter constructors and filtered listers, compared with the predicate of the statement; end to end through whole scans of two groups (pods bound anywhere, matching two groups).", engine="G", level="exploration", technique=G),
 "C16": hc("3/C16", "Every configuration with at most 2 (3) of nine exhaustively swept option groups off a valid baseline, rendered as JSON, block YAML and flow YAML, decoded and validated by the real code: accept implies every invariant; decoders agree; every documented key is honoured.", engine="G", level="exploration", technique=G),
 "C17": hc("3/C17", "Every provider-level operation sequence Refresh;[DeleteNodes];IncreaseSize over (desired, max, d) and the fleet-size/lifecycle/override/subnet/split/page-size grid on the real NodeGroup against a stateful simulated AWS that records arguments; plus controller histories (several scale-ups, the provider rebuilt in between) in which every request must be current + d.", engine="G+H", level="exploration", technique=G+"; plus "+H),
 "C18": hc("3/C18", "Every single failure point of the fleet path (never ready, ready on poll k, k-th attach fails, j-th terminate fails, status poll fails) for fleet sizes crossing the 20 and 1000 limits, on the real provider: set algebra over recorded ids; plus controller histories for the no-lock-after-failure clause.", engine="G+H", level="fault_enumeration", technique="exhaustive fault-point enumeration on the real provider; plus "+H),
 "C19": hc("3/C19", "Every (min, desired, node sequence, failing terminate position) case on the real DeleteNodes; histories with every terminate/delete call failing, non-member nodes eligible for removal in two-group worlds, and a tight cloud minimum: exact targets, decrement, minimum, not-in-group stop, cloud before Kubernetes.", engine="G+H", technique=G+"; plus "+H),
 "C20": hc("3/C20", "All histories over worlds of odd objects with a failure injected at every call of every scan, up to 3 (4) faults/deviations: no panic, no hang in virtual time, only the not-in-group condition stops the controller, the scan after a fault is normal.", level="fault_enumeration"),
 "C15": hc("3/C15", "Complete grid of node shapes (foreign taints in every order, escalator taint at every position, effects, flags) through the real taint helpers, plus histories (<= 3 / 4 deviations) that taint, untaint and re-taint under stale views: every PUT is diffed against the API store.", engine="G+H", technique=G+"; plus "+H),
}
PENDING_REASON = "check not built yet in this session (planned, see DESIGN.md section 3); not claimed until it exists"
def main():
    hooks = subprocess.run(["git","-C","/repo","log","--format=%H","--","pkg/controller/verif_hooks.go","pkg/cloudprovider/aws/verif_hooks.go","cmd/verif_gate_test.go"],capture_output=True,text=True).stdout.split()
    m = {
      "version": 1,
      "setup_cmd": "./setup.sh",
      "hooks": {"guard": "verif", "enable": "go1.26.8 test -c -tags verif (run.sh builds the checker from /repo's working tree)",
                "baseline_off_cmd": "cd /repo && GOFLAGS=-mod=mod GOPROXY=off GOSUMDB=off go test -vet=off -count=1 ./...",
                "source_commits": hooks, "add_only": True},
      "engines": [
        {"name": "explorer-H", "path": "explore/ h/ sim/", "serves_properties": [k for k,v in CHECKS.items() if v.get("engine","H") in ("H","G+H")],
         "kind_free_text": "stateless deviation-bounded DFS over environment events and API faults, executing the real controller in a synctest bubble"},
        {"name": "explorer-G", "path": "props/", "serves_properties": [k for k,v in CHECKS.items() if v.get("engine","H") in ("G","G+H")],
         "kind_free_text": "bounded-exhaustive enumeration of inputs / operation sequences / fault points on the real functions and provider"}],
      "checks": [], "not_applicable": [],
      "notes": "All checks: ./run.sh <ID> <tier>; exit 0 / 1 (+VIOLATION line) / 2 (harness error). Known findings: known_findings.json."}
    for pid in ALL:
        if pid in CHECKS:
            c = CHECKS[pid]
            m["checks"].append({"property_id": pid, "quick_cmd": f"./run.sh {pid} quick", "thorough_cmd": f"./run.sh {pid} thorough",
              "evidence_file": f"/verif/evidence/{pid}.json", "replay_cmd_template": "./run.sh replay {path}", "engine": "explorer-"+c.get("engine","H"),
              "level_claimed": {"category": c["level"], "text": c["text"], "design_ref": c["design"]}, "level_note": c["note"], "technique": c["technique"]})
        else:
            m["not_applicable"].append({"property_id": pid, "reason": PENDING_REASON})
    json.dump(m, open("/verif/MANIFEST.json","w"), indent=1)
main()
