#!/usr/bin/env python3
"""Regenerates MANIFEST.json from the table below (kept next to the checks so it stays current)."""
import json, subprocess
ALL = ["C%02d" % i for i in range(1, 21)]
H = "deviation-bounded exhaustive DFS (stateless, prefix replay) over scan histories of the real controller under virtual time, with canonical-state revisit pruning"
CHECKS = {
 "C01": dict(level="model_checking", design="3/C01", technique=H,
   text="Every history of 9 scans with at most 2 (quick) / 3 (thorough) environment deviations or injected API faults/kills over the stated alphabet is executed on the real controller and AWS provider; the removal-safety predicate is evaluated on every terminate/delete call of every scan. Right level: the property quantifies over histories, restarts and fault points, and the implementation itself is cheap enough to enumerate.",
   note="Simulated Kubernetes/AWS (sim/), synctest virtual clock, go1.26.8 build of /repo with -tags verif; informer wiring and main() outside the boundary."),
}
PENDING_REASON = "check not built yet in this session (planned, see DESIGN.md section 3); not claimed until it exists"
def main():
    hooks = subprocess.run(["git","-C","/repo","log","--format=%H","--","pkg/controller/verif_hooks.go","pkg/cloudprovider/aws/verif_hooks.go"],capture_output=True,text=True).stdout.split()
    m = {
      "version": 1,
      "setup_cmd": "./setup.sh",
      "hooks": {"guard": "verif", "enable": "go1.26.8 test -c -tags verif (run.sh builds the checker from /repo's working tree)",
                "baseline_off_cmd": "cd /repo && GOFLAGS=-mod=mod GOPROXY=off GOSUMDB=off go test -vet=off -count=1 ./...",
                "source_commits": hooks, "add_only": True},
      "engines": [
        {"name": "explorer-H", "path": "explore/ h/ sim/", "serves_properties": [k for k,v in CHECKS.items() if v.get("engine","H") in ("H","G+H")],
         "kind_free_text": "stateless deviation-bounded DFS over environment events and API faults, executing the real controller in a synctest bubble"},
        {"name": "explorer-G", "path": "props/", "serves_properties": [k for k,v in CHECKS.items() if v.get("engine","H") in ("G","G+H")],
         "kind_free_text": "bounded-exhaustive enumeration of inputs / operation sequences / fault points on the real functions and provider"}],
      "checks": [], "not_applicable": [],
      "notes": "All checks: ./run.sh <ID> <tier>; exit 0 / 1 (+VIOLATION line) / 2 (harness error). Known findings: known_findings.json."}
    for pid in ALL:
        if pid in CHECKS:
            c = CHECKS[pid]
            m["checks"].append({"property_id": pid, "quick_cmd": f"./run.sh {pid} quick", "thorough_cmd": f"./run.sh {pid} thorough",
              "evidence_file": f"/verif/evidence/{pid}.json", "replay_cmd_template": "./run.sh replay {path}", "engine": "explorer-"+c.get("engine","H"),
              "level_claimed": {"category": c["level"], "text": c["text"], "design_ref": c["design"]}, "level_note": c["note"], "technique": c["technique"]})
        else:
            m["not_applicable"].append({"property_id": pid, "reason": PENDING_REASON})
    json.dump(m, open("/verif/MANIFEST.json","w"), indent=1)
main()
