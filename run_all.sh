#!/bin/bash
# Runs every registered check at the given tier (default quick), one after the other.
tier=${1:-quick}
rc=0
for p in C01 C02 C03 C04 C05 C06 C07 C08 C09 C10 C11 C12 C13 C14 C15 C16 C17 C18 C19 C20; do
  ./run.sh $p $tier | grep -E "^(VIOLATION|KNOWN-FINDING|C[0-9]+ |HARNESS)" | cut -c1-260 || true
  [ ${PIPESTATUS[0]} -eq 0 ] || rc=1
done
exit $rc
