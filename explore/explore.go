// Package explore is a stateless, deviation-bounded depth-first explorer: an execution is a
// function of the sequence of answers given at its choice points; the explorer enumerates every
// sequence in which at most Bound answers differ from the default answer 0.
package explore

import (
	"fmt"
	"strings"
)

// Point is one choice point met during an execution.
type Point struct {
	N      int    // number of alternatives offered
	Label  string // what was being decided
	Chosen int
	Cost   int // deviations this choice cost (0 for the default, else the weight)
}

// Run is one execution as seen by the chooser.
type Run struct {
	Prefix []int
	Points []Point
	// Cut is set by the execution when it reached a state already fully expanded with at least
	// the remaining budget: alternatives at points from index Cut on are not explored.
	Cut int
}

// Chooser hands out choices for one execution.
type Chooser struct {
	run     *Run
	weights []int
	spent   int
	bound   int
	owned   bool
}

// Diverged is the panic value raised when a replayed prefix does not fit the menus met.
type Diverged struct{ Msg string }

// Choose returns an index in [0,n). Index 0 is the default answer and costs nothing.
func (c *Chooser) Choose(n int, label string) int { return c.ChooseW(n, 1, label) }

// ChooseW is Choose with an explicit deviation weight for non-default answers.
func (c *Chooser) ChooseW(n, weight int, label string) int {
	if n <= 0 {
		panic(Diverged{"empty menu at " + label})
	}
	i := len(c.run.Points)
	ch := 0
	if i < len(c.run.Prefix) {
		ch = c.run.Prefix[i]
		if ch >= n {
			panic(Diverged{fmt.Sprintf("prefix choice %d out of range %d at point %d (%s)", ch, n, i, label)})
		}
	}
	cost := 0
	if ch != 0 {
		cost = weight
	}
	c.spent += cost
	c.run.Points = append(c.run.Points, Point{N: n, Label: label, Chosen: ch, Cost: cost})
	c.weights = append(c.weights, weight)
	return ch
}

// Spent is the number of deviations used so far; Left the remaining budget.
func (c *Chooser) Spent() int { return c.spent }
func (c *Chooser) Left() int  { return c.bound - c.spent }

// InPrefix reports whether the execution is still replaying forced choices.
func (c *Chooser) InPrefix() bool { return len(c.run.Points) < len(c.run.Prefix) }

// CutHere tells the explorer not to expand alternatives at any later point of this execution.
func (c *Chooser) CutHere() {
	if c.run.Cut < 0 {
		c.run.Cut = len(c.run.Points)
	}
}

// Stats accumulates exploration counters.
type Stats struct {
	Executions   int64
	ChoicePoints int64
	MaxDevUsed   int
	Pruned       int64
}

// Explorer enumerates executions.
type Explorer struct {
	Bound int
	// Exec runs one execution to completion.
	Exec func(c *Chooser)
	// Shard / Shards split the level-1 alternatives among processes: alternative k of the root
	// execution belongs to shard k % Shards. The root execution itself belongs to shard 0.
	Shard, Shards int
	// Stop, when it returns true, ends the exploration early (deadline); Capped records it.
	Stop   func() bool
	Capped bool
	Stats  Stats
}

// RunPrefix executes exactly one sequence of choices (defaults afterwards).
func (e *Explorer) RunPrefix(prefix []int) *Run {
	r := &Run{Prefix: prefix, Cut: -1}
	c := &Chooser{run: r, bound: e.Bound, owned: true}
	e.Exec(c)
	if len(r.Points) < len(prefix) {
		panic(Diverged{fmt.Sprintf("execution ended after %d points, prefix has %d", len(r.Points), len(prefix))})
	}
	return r
}

// Explore enumerates all executions within the bound.
func (e *Explorer) Explore() {
	if e.Shards <= 0 {
		e.Shards = 1
	}
	e.explore(nil, 0)
}

func (e *Explorer) explore(prefix []int, depth int) {
	if e.Stop != nil && e.Stop() {
		e.Capped = true
		return
	}
	r := &Run{Prefix: prefix, Cut: -1}
	own := depth > 0 || e.Shard == 0
	c := &Chooser{run: r, bound: e.Bound, owned: own}
	e.Exec(c)
	if len(r.Points) < len(prefix) {
		panic(Diverged{fmt.Sprintf("execution ended after %d points, prefix has %d", len(r.Points), len(prefix))})
	}
	if own {
		e.Stats.Executions++
		e.Stats.ChoicePoints += int64(len(r.Points))
		if c.spent > e.Stats.MaxDevUsed {
			e.Stats.MaxDevUsed = c.spent
		}
	}
	spent := 0
	for i := 0; i < len(prefix); i++ {
		spent += r.Points[i].Cost
	}
	k := 0
	for i := len(prefix); i < len(r.Points); i++ {
		if r.Cut >= 0 && i >= r.Cut {
			e.Stats.Pruned++
			break
		}
		p := r.Points[i]
		if spent+c.weights[i] > e.Bound {
			continue
		}
		for alt := 1; alt < p.N; alt++ {
			if depth == 0 {
				k++
				if k%e.Shards != e.Shard {
					continue
				}
			}
			np := make([]int, i+1)
			for j := 0; j < i; j++ {
				np[j] = r.Points[j].Chosen
			}
			np[i] = alt
			e.explore(np, depth+1)
			if e.Capped {
				return
			}
		}
	}
}

// Describe renders the non-default choices of a run.
func Describe(r *Run) string {
	var b strings.Builder
	for i, p := range r.Points {
		if p.Chosen != 0 {
			fmt.Fprintf(&b, "[%d:%s=%d]", i, p.Label, p.Chosen)
		}
	}
	return b.String()
}

// Choices returns the chosen indices of a run with trailing defaults trimmed.
func Choices(r *Run) []int {
	out := make([]int, len(r.Points))
	last := -1
	for i, p := range r.Points {
		out[i] = p.Chosen
		if p.Chosen != 0 {
			last = i
		}
	}
	return out[:last+1]
}

// Run returns the run record the chooser is filling.
func (c *Chooser) Run() *Run { return c.run }

// Owned reports whether this execution is counted by this shard (the root execution is run by
// every shard but belongs to shard 0).
func (c *Chooser) Owned() bool { return c.owned }

// RunLenient executes a sequence of choices without requiring that all of them are consumed
// (used for twin executions that may stop early).
func (e *Explorer) RunLenient(prefix []int) *Run {
	r := &Run{Prefix: prefix, Cut: -1}
	c := &Chooser{run: r, bound: 1 << 30, owned: true}
	e.Exec(c)
	return r
}
