#!/bin/bash
# usage: eval_seed.sh <property-id> <seed-dir> <label> [extra check ids...]
# 1. confirms the seed in a scratch worktree (suite passes with it; demo fails with it, passes without);
# 2. runs the property's quick check (and any extra checks) against it via an overlay build (/repo untouched);
# 3. stores it as /verif/seeded/<label>/ with meta.json extended by what was run and what was reported.
set -u
cd "$(dirname "$0")/.."
prop=$1; d=$(readlink -f "$2"); label=$3; shift 3
conf=$(demo/confirm_seed.sh "$d" 2>&1)
echo "$conf" | sed 's/^/  /'
ok=1
echo "$conf" | grep -q "suite_with_change=pass" || ok=0
echo "$conf" | grep -q "demo_with_change=fail(expected)" || ok=0
echo "$conf" | grep -q "demo_without_change=pass(expected)" || ok=0
if [ $ok = 0 ]; then echo "SEED-NOT-CONFIRMED $label"; exit 3; fi
ov=$(demo/seed_overlay.sh "$label" "$d/patch.diff") || { echo "overlay failed"; exit 3; }
results="{}"
for chk in $prop "$@"; do
  log=$(VERIF_EVIDENCE_DIR=/verif/.build/scratch-evidence VERIF_REPLAY_DIR=/verif/.build/scratch-replays VERIF_OVERLAY=$ov ./run.sh $chk quick 2>&1); rc=$?
  sigs=$(echo "$log" | grep -A1 '^VIOLATION' | grep signature | sed 's/.*signature: //' | sort -u | tr '\n' ' ')
  summary=$(echo "$log" | grep -E "^$chk quick:" | sed -E 's/.*(violations=[0-9]+).*/\1/')
  echo "  check $chk: exit=$rc $summary sigs: $sigs"
  results=$(python3 -c "import json,sys; r=json.loads(sys.argv[1]); r[sys.argv[2]]={'exit':int(sys.argv[3]),'signatures':sys.argv[4].split()}; print(json.dumps(r))" "$results" "$chk" "$rc" "$sigs")
done
mkdir -p seeded/$label
cp "$d/patch.diff" seeded/$label/patch.diff
cp "$d/demo_test.go.txt" seeded/$label/demo_test.go.txt
python3 - "$d/meta.json" "seeded/$label/meta.json" "$results" "$prop" <<'PY'
import json,sys
m=json.load(open(sys.argv[1])); res=json.loads(sys.argv[3]); prop=sys.argv[4]
m["breaks_property"]=prop
m["confirmed_by_me"]={"suite_passes_with_change":True,"demo_fails_with_change":True,"demo_passes_without_change":True,
  "how":"demo/confirm_seed.sh in a throw-away worktree of /repo HEAD: git apply patch; go build ./...; go test ./... ; demo run; git apply -R; demo run"}
m["checks_run"]={"how":"demo/seed_overlay.sh + VERIF_OVERLAY=<overlay> ./run.sh <ID> quick (overlay build of /repo with the patch; /repo untouched)","results":res}
m["caught_by"]=[k for k,v in res.items() if v["exit"]==1]
json.dump(m,open(sys.argv[2],"w"),indent=1)
PY
echo "SEED $label caught_by=$(python3 -c "import json;print(json.load(open('seeded/$label/meta.json'))['caught_by'])")"
