#!/bin/bash
# usage: seed_overlay.sh <name> <patch.diff>
# Applies the patch in a throw-away worktree of /repo and prints the path of an overlay.json that maps
# the changed /repo files to the patched copies (so a check can be run against the change without
# touching /repo: VERIF_OVERLAY=<path> ./run.sh <ID> quick).
set -eu
name=$1; patch=$(readlink -f "$2")
dir=/verif/.build/mut/seed-$name
rm -rf "$dir"; mkdir -p "$dir"
wt=$(mktemp -d /tmp/seedwt.XXXXXX)
git -C /repo worktree add -q --detach "$wt" HEAD
trap 'git -C /repo worktree remove --force "$wt" >/dev/null 2>&1 || true' EXIT
git -C "$wt" apply "$patch"
printf '{"Replace":{' > "$dir/overlay.json"
first=1
for f in $(git -C "$wt" status --porcelain | awk '{print $2}'); do
  case "$f" in *_test.go) continue;; esac
  out="$dir/$(echo "$f" | tr / _)"
  cp "$wt/$f" "$out"
  [ $first = 1 ] || printf ',' >> "$dir/overlay.json"
  first=0
  printf '"%s":"%s"' "/repo/$f" "$out" >> "$dir/overlay.json"
done
printf '}}\n' >> "$dir/overlay.json"
echo "$dir/overlay.json"
