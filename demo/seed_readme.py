#!/usr/bin/env python3
"""Regenerates seeded/README.md from the meta.json files and demo/seed_notes.json (strengthening notes)."""
import json,glob,os
notes=json.load(open('/verif/demo/seed_notes.json'))
rows=[]
for d in sorted(glob.glob('/verif/seeded/*/')):
    label=os.path.basename(d.rstrip('/'))
    m=json.load(open(d+'meta.json'))
    m["initially_missed"]=label in notes
    if label in notes: m["strengthening"]=notes[label]
    m["round"]={"a":1,"b":1,"c":2,"d":2,"e":3,"f":3,"g":4,"h":4,"i":5,"j":5,"k":6,"l":6,"m":7,"n":7,"o":8,"p":8}[label[-1]]
    json.dump(m,open(d+'meta.json','w'),indent=1)
    res=m["checks_run"]["results"].get(m["breaks_property"],{})
    rows.append((label,m["breaks_property"],m["summary"],m["needs"],", ".join(res.get("signatures",[])[:3]),("yes, after strengthening: "+notes[label]) if label in notes else "yes"))
with open('/verif/seeded/README.md','w') as f:
    f.write("# Independent property-breaking changes\n\nWritten by sub-agents that were given only a property's text and a scratch worktree of /repo (nothing from /verif); labels ending in a/b are round 1, c/d round 2 (asked for subtler, multi-scan / fault-dependent changes and told what round 1 had produced), e/f round 3 (asked for unusual configurations, cluster shapes, ties and single-call faults), g/h round 4 (all twenty properties in two batches; same brief, told everything earlier rounds had produced), i/j round 5, k/l round 6 and m/n round 7 (the same again). Each was confirmed in a throw-away worktree (repository suite passes with it; its demonstration fails with it and passes without it) and then run against the property's quick check via an overlay build (`demo/eval_seed.sh`). `demo/apply_seed_check.sh` does the same with `git -C /repo apply` / `git -C /repo checkout -- .`.\n\n")
    n=len(rows); missed=sum(1 for r in rows if r[0] in notes)
    f.write("%d changes; %d were caught by the checks as they stood, %d were missed at first and are caught after the strengthening described in the last column.\n\n"%(n,n-missed,missed))
    f.write("| id | property | change | needs | signatures reported by the property's check | caught |\n|---|---|---|---|---|---|\n")
    for r in rows:
        f.write("| %s | %s | %s | %s | %s | %s |\n"%tuple(x.replace('|','/').replace('\n',' ') for x in r))
print(len(rows), "seeds")
