#!/bin/bash
# usage: confirm_seed.sh <seed-dir>   (contains patch.diff, demo_test.go.txt, meta.json)
# Confirms in a throw-away worktree: suite passes with the change; demo fails with it; demo passes without it.
set -u
d=$(readlink -f "$1")
export GOFLAGS=-mod=mod GOPROXY=off GOSUMDB=off
wt=$(mktemp -d /tmp/seedconf.XXXXXX)
git -C /repo worktree add -q --detach "$wt" HEAD
trap 'git -C /repo worktree remove --force "$wt" >/dev/null 2>&1 || true' EXIT
place=$(head -1 "$d/demo_test.go.txt" | sed -E 's#^// *place at: *##')
run=$(python3 -c "import json,sys; print(json.load(open('$d/meta.json'))['demo_run'])")
cd "$wt"
git apply "$d/patch.diff" || { echo "PATCH-DOES-NOT-APPLY"; exit 1; }
go build ./... || { echo "DOES-NOT-COMPILE"; exit 1; }
suite=FAIL
for try in 1 2 3; do
  if go test -vet=off -count=1 ./... > "$wt/suite.log" 2>&1; then suite=pass; break; fi
  grep -E "^(--- FAIL|FAIL|panic)" "$wt/suite.log" | head -5 | sed "s/^/  try $try: /"
done
echo "suite_with_change=$suite"
cp "$d/demo_test.go.txt" "$wt/$place"
if (eval "$run -count=1") > "$wt/demo1.log" 2>&1; then echo "demo_with_change=pass(UNEXPECTED)"; else echo "demo_with_change=fail(expected)"; fi
git apply -R "$d/patch.diff"
if (eval "$run -count=1") > "$wt/demo2.log" 2>&1; then echo "demo_without_change=pass(expected)"; else echo "demo_without_change=FAIL(UNEXPECTED)"; tail -8 "$wt/demo2.log"; fi
