#!/bin/bash
# usage: apply_seed_check.sh [seed-label ...]   (default: every directory under seeded/)
# For each seeded change: git -C /repo apply it, run the check of the property it breaks (quick tier,
# evidence and replays into scratch directories), and undo it straight afterwards
# (git -C /repo checkout -- . ; plus removal of files the patch added). /repo must be clean.
# Do not run while another job is building from /repo.
set -u
cd "$(dirname "$0")/.."
if [ -n "$(git -C /repo status --porcelain)" ]; then echo "/repo is not clean"; exit 2; fi
labels=("$@"); if [ ${#labels[@]} -eq 0 ]; then labels=($(ls seeded | grep -v README)); fi
for l in "${labels[@]}"; do
  d=seeded/$l
  prop=$(python3 -c "import json;print(json.load(open('$d/meta.json'))['breaks_property'])")
  git -C /repo apply "$PWD/$d/patch.diff" || { echo "$l: patch does not apply"; continue; }
  log=$(VERIF_EVIDENCE_DIR=$PWD/.build/scratch-evidence VERIF_REPLAY_DIR=$PWD/.build/scratch-replays ./run.sh $prop quick 2>&1); rc=$?
  git -C /repo checkout -- . ; git -C /repo clean -fdq -- pkg cmd
  sigs=$(echo "$log" | grep -A1 '^VIOLATION' | grep signature | sed 's/.*signature: //' | sort -u | tr '\n' ' ')
  echo "$l property=$prop exit=$rc $sigs"
done
