#!/bin/bash
# usage: quick_seed_check.sh <property-id> <patch.diff> <label>
# Runs only the property's quick check against the patch (overlay build); no confirmation, nothing stored.
cd "$(dirname "$0")/.."
prop=$1; patch=$2; label=$3
ov=$(demo/seed_overlay.sh "q-$label" "$patch") || { echo "QSEED $label overlay-failed"; exit 3; }
log=$(VERIF_EVIDENCE_DIR=/verif/.build/scratch-evidence VERIF_REPLAY_DIR=/verif/.build/scratch-replays VERIF_OVERLAY=$ov ./run.sh $prop quick 2>&1); rc=$?
sigs=$(echo "$log" | grep -A1 '^VIOLATION' | grep signature | sed 's/.*signature: //' | sort -u | tr '\n' ' ')
echo "QSEED $label exit=$rc sigs: $sigs"
rm -rf /verif/.build/mut/seed-q-$label
