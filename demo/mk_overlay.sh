#!/bin/bash
# usage: mk_overlay.sh <name> <repo-relative-file> <sed-expression> [<file> <sed> ...]
# Creates /verif/.build/mut/<name>/ with mutated copies and an overlay.json mapping /repo files to them.
set -eu
name=$1; shift
dir=/verif/.build/mut/$name
rm -rf "$dir"; mkdir -p "$dir"
printf '{"Replace":{' > "$dir/overlay.json"
first=1
while [ $# -ge 2 ]; do
  f=$1; expr=$2; shift 2
  out="$dir/$(echo "$f" | tr / _)"
  sed -E "$expr" "/repo/$f" > "$out"
  if cmp -s "/repo/$f" "$out"; then echo "mutation did not change $f" >&2; exit 3; fi
  [ $first = 1 ] || printf ',' >> "$dir/overlay.json"
  first=0
  printf '"%s":"%s"' "/repo/$f" "$out" >> "$dir/overlay.json"
done
printf '}}\n' >> "$dir/overlay.json"
echo "$dir/overlay.json"
