#!/bin/bash
# usage: recheck_seeds.sh [label-glob]
# Re-runs, for every stored seeded change, the quick check of the property it breaks (overlay build,
# /repo untouched) and reports the ones that are no longer reported. Does not rewrite seeded/*/meta.json.
set -u
cd "$(dirname "$0")/.."
glob=${1:-*}
missed=0; n=0
for d in seeded/$glob/; do
  label=$(basename "$d")
  [ -f "$d/patch.diff" ] || continue
  prop=$(python3 -c "import json;print(json.load(open('$d/meta.json'))['breaks_property'])")
  ov=$(demo/seed_overlay.sh "$label" "$d/patch.diff") || { echo "RECHECK $label overlay-failed"; missed=$((missed+1)); continue; }
  log=$(VERIF_EVIDENCE_DIR=/verif/.build/scratch-evidence VERIF_REPLAY_DIR=/verif/.build/scratch-replays VERIF_OVERLAY=$ov ./run.sh $prop quick 2>&1); rc=$?
  sigs=$(echo "$log" | grep -A1 '^VIOLATION' | grep signature | sed 's/.*signature: //' | sort -u | tr '\n' ' ')
  n=$((n+1))
  if [ $rc = 1 ]; then echo "RECHECK $label $prop caught sigs: $sigs"; else echo "RECHECK $label $prop MISSED exit=$rc"; missed=$((missed+1)); fi
  rm -rf /verif/.build/mut/seed-$label
done
echo "RECHECK-SUMMARY seeds=$n not_reported=$missed"
[ $missed = 0 ]
