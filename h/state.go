package h

import (
	"crypto/sha1"
	"encoding/hex"
	"fmt"
	"sort"
	"strings"
	"time"

	v1 "k8s.io/api/core/v1"
)

func rel(t time.Time, now time.Time) string {
	if t.IsZero() {
		return "z"
	}
	return fmt.Sprint(int64(now.Sub(t) / time.Millisecond))
}

func nodeKey(n *v1.Node, now time.Time) string {
	var b strings.Builder
	fmt.Fprintf(&b, "%s|c%s|u%v|p%s|", n.Name, rel(n.CreationTimestamp.Time, now), n.Spec.Unschedulable, n.Spec.ProviderID)
	ts := make([]string, 0, len(n.Spec.Taints))
	for _, t := range n.Spec.Taints {
		v := t.Value
		if t.Key == TaintKey {
			if tt, ok := TaintTime(n); ok {
				v = "age" + rel(tt, now)
			}
		}
		ts = append(ts, t.Key+"="+v+":"+string(t.Effect))
	}
	b.WriteString(strings.Join(ts, ","))
	fmt.Fprintf(&b, "|a%s|", n.Annotations[NoDeleteKey])
	ls := make([]string, 0, len(n.Labels))
	for k, v := range n.Labels {
		ls = append(ls, k+"="+v)
	}
	sort.Strings(ls)
	b.WriteString(strings.Join(ls, ","))
	if n.Status.Allocatable != nil {
		fmt.Fprintf(&b, "|%d/%d", n.Status.Allocatable.Cpu().MilliValue(), n.Status.Allocatable.Memory().Value())
	} else {
		b.WriteString("|noalloc")
	}
	return b.String()
}

func podKey(p *v1.Pod) string {
	sel := make([]string, 0, len(p.Spec.NodeSelector))
	for k, v := range p.Spec.NodeSelector {
		sel = append(sel, k+"="+v)
	}
	sort.Strings(sel)
	cpu, mem := int64(0), int64(0)
	for _, c := range p.Spec.Containers {
		cpu += c.Resources.Requests.Cpu().MilliValue()
		mem += c.Resources.Requests.Memory().Value()
	}
	return fmt.Sprintf("%s|%s|%d/%d|%s|ds%v", p.Spec.NodeName, strings.Join(sel, ","), cpu, mem, p.Status.Phase, isDaemonSet(p))
}

// StateKey is the canonical form of everything the code under test can observe from here on:
// API store, informer view (when it differs from the store), cloud state, private controller
// state with times relative to now, monitor state, and the position in the skeleton. Node names
// are kept (they determine tie-breaking and journal targets); pods are a multiset.
func (h *Hist) StateKey() string {
	now := time.Now()
	var b strings.Builder
	fmt.Fprintf(&b, "slot%d;", h.Slot)
	for _, n := range h.W.Nodes {
		b.WriteString(nodeKey(n, now))
		b.WriteString(";")
	}
	b.WriteString("#pods;")
	pk := make([]string, 0, len(h.W.Pods))
	for _, p := range h.W.Pods {
		pk = append(pk, podKey(p))
	}
	sort.Strings(pk)
	b.WriteString(strings.Join(pk, ";"))
	// the view only matters if the next scan can be stale: it is then the store as of the last
	// sync, which is a function of earlier states; include it whenever it differs from the store
	b.WriteString("#view;")
	if !h.viewEqualsStore() {
		for _, n := range h.W.ViewNodes {
			b.WriteString(nodeKey(n, now))
			b.WriteString(";")
		}
		vk := make([]string, 0, len(h.W.ViewPods))
		for _, p := range h.W.ViewPods {
			vk = append(vk, podKey(p))
		}
		sort.Strings(vk)
		b.WriteString(strings.Join(vk, ";"))
	}
	b.WriteString("#aws;")
	for _, a := range h.W.ASGs {
		fmt.Fprintf(&b, "%s:%d/%d/%d:", a.Name, a.Min, a.Max, a.Desired)
		for _, in := range a.Instances {
			b.WriteString(in.ID + ",")
		}
		b.WriteString(strings.Join(a.Tags, ",") + ";")
	}
	// unattached live fleet instances
	var loose []string
	for id, in := range h.W.EC2 {
		if in.ASG == "" && in.State != "terminated" {
			loose = append(loose, id+in.State)
		}
	}
	sort.Strings(loose)
	b.WriteString(strings.Join(loose, ","))
	// behaviour switches of the simulated cloud / API that events flip and that outlive the slot
	fmt.Fprintf(&b, "#sw;r%d;s%d;p%d;e%v;st%v;hn%v;", h.W.ReadyFromPoll, h.W.FleetShort, h.W.FleetSplit, h.W.FleetErrors, h.W.ReadyStagger, h.W.ReadyHalfNever)
	if len(h.W.AfterGet) > 0 {
		ag := make([]string, 0, len(h.W.AfterGet))
		for k := range h.W.AfterGet {
			ag = append(ag, k)
		}
		sort.Strings(ag)
		b.WriteString(strings.Join(ag, ","))
	}
	b.WriteString("#ctl;")
	if h.C == nil {
		b.WriteString("none")
	} else {
		for _, s := range h.C.VerifDumpState() {
			lt := "z"
			if s.IsLocked || !s.LockTime.IsZero() {
				// an expired lock behaves like no lock; keep the remaining time only while it matters
				if left := s.LockDuration - now.Sub(s.LockTime); left > 0 {
					lt = fmt.Sprint(int64(left / time.Millisecond))
				} else {
					lt = "exp"
				}
			}
			fmt.Fprintf(&b, "%s:l%v/%d/%s:d%d:o%s:cap%d/%d:t%s:f%s:m%d/%d;", s.Name, s.IsLocked, s.RequestedNodes, lt, s.ScaleDelta,
				rel(s.LastScaleOut, now), s.CPUCapacityMilli, s.MemCapacityBytes, strings.Join(s.TaintTracker, ","), strings.Join(s.ForceTaintTracker, ","), s.MinNodes, s.MaxNodes)
		}
	}
	fmt.Fprintf(&b, "#h;r%v;i%d;life%v%v%v;", h.needRestart, h.W.SeqInst(), h.lifeRebuilt, h.lifeScaledUp, h.lifeRemoved)
	for _, m := range h.Monitors {
		b.WriteString(m.Key())
		b.WriteString(";")
	}
	sum := sha1.Sum([]byte(b.String()))
	return hex.EncodeToString(sum[:12])
}

func (h *Hist) viewEqualsStore() bool {
	if len(h.W.ViewNodes) != len(h.W.Nodes) || len(h.W.ViewPods) != len(h.W.Pods) {
		return false
	}
	now := time.Now()
	for i := range h.W.Nodes {
		if nodeKey(h.W.Nodes[i], now) != nodeKey(h.W.ViewNodes[i], now) {
			return false
		}
	}
	for i := range h.W.Pods {
		if podKey(h.W.Pods[i]) != podKey(h.W.ViewPods[i]) {
			return false
		}
	}
	return true
}
