// Package h is the history harness: it runs the real escalator controller and AWS provider
// against the simulated world inside a synctest bubble (virtual time), one execution per
// sequence of explorer choices.
package h

import (
	"fmt"
	"io"
	"sort"
	"strings"
	"sync/atomic"
	"testing"
	"testing/synctest"
	"time"

	"github.com/atlassian/escalator/pkg/cloudprovider"
	awsprov "github.com/atlassian/escalator/pkg/cloudprovider/aws"
	"github.com/atlassian/escalator/pkg/controller"
	log "github.com/sirupsen/logrus"
	v1 "k8s.io/api/core/v1"

	"verif/explore"
	"verif/sim"
)

// ExitSentinel is the panic value standing for "the process asked to exit" (logrus Fatal).
type ExitSentinel struct{ Code int }

func init() {
	log.SetOutput(io.Discard)
	log.SetLevel(log.PanicLevel)
	log.StandardLogger().ExitFunc = func(code int) { panic(ExitSentinel{code}) }
}

// GroupSpec is one configured node group together with the ASG backing it.
type GroupSpec struct {
	Opts controller.NodeGroupOptions
	ASG  sim.ASG
}

// Event is one environment deviation offered at the head of a slot.
type Event struct {
	Label  string
	Apply  func(h *Hist)
	Weight int // deviation cost, default 1
}

// Scenario closes the system: configuration, initial world, skeleton and alphabet.
type Scenario struct {
	Name string
	// CovName, when set, replaces Name as the prefix of the coverage counters in the evidence (families
	// of thousands of tiny scenarios share one set of counters).
	CovName   string
	Groups    []GroupSpec
	DryGlobal bool
	Init      func(h *Hist)
	Slots     int
	Quantum   time.Duration
	// Events returns the deviation menu at the head of a slot; it must be a deterministic
	// function of the history so far.
	Events func(h *Hist, slot int) []Event
	// Script runs unconditionally at the head of every slot (scripted, non-chosen environment steps).
	Script           func(h *Hist, slot int)
	MaxEventsPerSlot int
	// FaultOps lists the operations whose calls are ok/fail choice points inside a scan.
	FaultOps map[string]bool
	// FaultFilter, when set, further restricts which calls are choice points.
	FaultFilter func(h *Hist, op, target string) bool
	// KillOps lists the operations at which the process may additionally be killed.
	KillOps map[string]bool
	// FaultsAtBuild also offers faults while the provider is being (re)built.
	FaultsAtBuild bool
	Monitors      func() []Monitor
	// Prepare runs once, outside any bubble, before the scenario is explored or replayed.
	Prepare func(t *testing.T, s *Scenario)
	// Twin runs after each execution, outside the bubble: it may re-execute the same choices on a
	// variant and append violations to h.Viol (metamorphic oracles).
	Twin func(t *testing.T, s *Scenario, h *Hist, choices []int)
	// BoundExact, when > 0, replaces the check's deviation bound for this scenario.
	BoundExact int
	// BoundCap, when > 0, caps the deviation bound for this scenario below the check's bound.
	BoundCap int
	// Prune enables revisited-state pruning for this scenario even when its check does not prune
	// globally (scenarios without a twin / baseline oracle).
	Prune bool
	// Lenient executions swallow a divergence between forced choices and menus (twins only).
	Lenient bool
	// Shared is scenario-level scratch space for Prepare / Twin / monitors.
	Shared map[string]any
	// FleetTimeout is the fleet instance ready timeout handed to the provider (0 = 2.5 s; negative = a
	// configured timeout of zero).
	FleetTimeout time.Duration
}

// Hist is one execution in progress.
type Hist struct {
	S    *Scenario
	W    *sim.World
	C    *controller.Controller
	Ch   *explore.Chooser
	T0   time.Time
	Slot int

	// per-slot flags set by events
	Stale      bool
	SkipSettle bool
	Restart    bool
	ExtraTicks int
	PermNodes  int // rotate the view's node order by this much
	// SlotFlags are per-slot switches set by events (e.g. "descins-down": every DescribeInstances
	// call of this slot's scan fails; those calls are issued in map order, so they are not choice points).
	SlotFlags map[string]bool
	// PostSync runs after the informer view was synced and before the scan (per slot): changes made
	// there are in the API store but not yet in the view.
	PostSync []func(h *Hist)
	PermPods int

	Lifetimes int  // controller lifetimes started
	Abort     bool // stop executing further slots (set by twin monitors)
	// DivergedMsg is set when a lenient (twin) execution met a menu its forced choices did not fit.
	DivergedMsg string
	// Per-scan summaries kept for metamorphic comparisons.
	Summaries []ScanSummary
	Trace     []string
	Monitors  []Monitor
	Viol      []Violation
	Cov       map[string]int64

	needRestart bool
	builds      int
	scanActive  bool
	inBuild     bool
	// what this controller lifetime has been through (part of the canonical state: code may remember
	// objects from before a provider rebuild, from its first scale-up or its first removal)
	lifeRebuilt, lifeScaledUp, lifeRemoved bool
	lastLifetimeScanned                    int
	journalMark                            int
	Scans                                  int64
	Keys                                   []string // canonical state key after each slot
	OnSlotEnd                              func(h *Hist)
	// SawHang: some scan of this history did not return within the virtual-time horizon.
	SawHang bool
}

// Decide implements sim.Decider: calls whose operation is in the scenario's fault alphabet are
// choice points.
func (h *Hist) Decide(op, target string) sim.Verdict {
	if h.W.Phase == "build" {
		if !h.S.FaultsAtBuild {
			return sim.OK
		}
	} else if !h.scanActive {
		return sim.OK
	}
	if op == sim.OpDescribeIns {
		if h.SlotFlags["descins-down"] {
			return sim.Fail
		}
		return sim.OK
	}
	// "refresh-fail": the first DescribeAutoScalingGroups of this slot's scan fails (Refresh fails once:
	// RunOnce sleeps 5 s, rebuilds the provider and carries on)
	// "refresh-down": every Refresh of this slot's scan fails (the first one and the one after each of
	// the two provider rebuilds) while the rebuilds themselves succeed
	if op == sim.OpDescribeASG && h.SlotFlags["refresh-down"] && h.scanActive && !h.inBuild {
		h.Trace = append(h.Trace, "  fail asg.describe [every refresh of this scan fails]")
		return sim.Fail
	}
	if op == sim.OpDescribeASG && h.SlotFlags["refresh-fail"] && h.scanActive {
		h.SlotFlags["refresh-fail"] = false
		h.Trace = append(h.Trace, "  fail asg.describe [refresh fails once]")
		return sim.Fail
	}
	// "reject:<node>": every get / update / delete of that node fails during this slot's scan (an
	// admission webhook or a broken object): one deviation, not one per call
	if (op == sim.OpK8sGet || op == sim.OpK8sUpdate || op == sim.OpK8sDelete) && h.SlotFlags["reject:"+target] {
		h.Trace = append(h.Trace, fmt.Sprintf("  fail %s(%s) [node rejected]", op, target))
		return sim.Fail
	}
	if !h.S.FaultOps[op] {
		return sim.OK
	}
	if h.S.FaultFilter != nil && !h.S.FaultFilter(h, op, target) {
		return sim.OK
	}
	n := 2
	if h.S.KillOps[op] {
		n = 3
	}
	k := h.Ch.Choose(n, "fault:"+op+":"+target)
	switch k {
	case 1:
		h.Trace = append(h.Trace, fmt.Sprintf("  fail %s(%s)", op, target))
		return sim.Fail
	case 2:
		h.Trace = append(h.Trace, fmt.Sprintf("  kill at %s(%s)", op, target))
		return sim.Kill
	}
	return sim.OK
}

type builder struct{ h *Hist }

func (b builder) Build() (cloudprovider.CloudProvider, error) {
	h := b.h
	prev := h.W.Phase
	if !h.scanActive {
		h.W.Phase = "build"
	}
	h.inBuild = true
	if h.scanActive {
		h.lifeRebuilt = true
	}
	defer func() {
		h.inBuild = false
		if !h.scanActive {
			h.W.Phase = prev
		}
	}()
	return awsprov.VerifNewCloudProvider(sim.ASGAPI{W: h.W}, sim.EC2API{W: h.W}, ProviderConfigs(h.S.Groups, h.S.FleetTimeout))
}

// ProviderConfigs restates cmd/main.go's setupCloudProvider: node group options to provider
// configuration (C16 compares it with the real function through the tagged probe in /repo/cmd). The
// fleet ready timeout is the scenario's (default 2.5 s) instead of the option's.
func ProviderConfigs(groups []GroupSpec, fleetTimeout time.Duration) []cloudprovider.NodeGroupConfig {
	var cfgs []cloudprovider.NodeGroupConfig
	for _, g := range groups {
		n := g.Opts
		to := fleetTimeout
		if to == 0 {
			to = 2500 * time.Millisecond
		}
		if to < 0 {
			to = 0 // aws.fleet_instance_ready_timeout: "0s" (or unparsable): validation does not look at it
		}
		cfgs = append(cfgs, cloudprovider.NodeGroupConfig{
			Name:    n.Name,
			GroupID: n.CloudProviderGroupName,
			AWSConfig: cloudprovider.AWSNodeGroupConfig{
				LaunchTemplateID:          n.AWS.LaunchTemplateID,
				LaunchTemplateVersion:     n.AWS.LaunchTemplateVersion,
				FleetInstanceReadyTimeout: to,
				Lifecycle:                 n.AWS.Lifecycle,
				InstanceTypeOverrides:     n.AWS.InstanceTypeOverrides,
				ResourceTagging:           n.AWS.ResourceTagging,
			},
		})
	}
	return cfgs
}

// NewController starts a controller lifetime. It returns false when start-up failed (the process
// would exit and be restarted).
func (h *Hist) NewController() (ok bool) {
	h.C = nil
	h.lifeRebuilt, h.lifeScaledUp, h.lifeRemoved = false, false, false
	h.builds++
	opts := controller.Opts{
		K8SClient:            h.W.Client(),
		CloudProviderBuilder: builder{h},
		ScanInterval:         h.S.Quantum,
		DryMode:              h.S.DryGlobal,
	}
	for _, g := range h.S.Groups {
		opts.NodeGroups = append(opts.NodeGroups, g.Opts)
	}
	defer func() {
		if r := recover(); r != nil {
			switch r.(type) {
			case sim.KillSentinel, ExitSentinel:
				ok = false
			default:
				panic(r)
			}
		}
	}()
	h.W.Phase = "build"
	c, err := controller.VerifNewController(opts, sim.PodLister{W: h.W}, sim.NodeLister{W: h.W})
	h.W.Phase = "idle"
	if err != nil {
		return false
	}
	h.C = c
	h.Lifetimes++
	return true
}

// ScanResult is what one RunOnce did, as observed from outside.
type ScanResult struct {
	Ran      bool
	Err      error
	Panic    any
	Stack    string
	Killed   bool
	Exit     bool
	Hang     bool
	Duration time.Duration
	diverged any
}

func (h *Hist) runOnce() (res ScanResult) {
	res.Ran = true
	start := time.Now()
	done := make(chan struct{})
	go func() {
		defer close(done)
		defer func() {
			if r := recover(); r != nil {
				switch r.(type) {
				case sim.KillSentinel:
					res.Killed = true
				case ExitSentinel:
					res.Exit = true
				case explore.Diverged:
					res.diverged = r
				default:
					res.Panic = r
					res.Stack = shortStack()
				}
			}
		}()
		res.Err = h.C.RunOnce()
	}()
	horizon := time.NewTimer(10000 * time.Second)
	defer horizon.Stop()
	select {
	case <-done:
	case <-horizon.C:
		res.Hang = true
		h.SawHang = true
	}
	res.Duration = time.Since(start)
	if res.diverged != nil {
		panic(res.diverged)
	}
	return res
}

// InFlightSince is the wall-clock start (Unix nanoseconds) of the execution in progress, 0 when
// none; InFlightDesc describes it. A watchdog outside the bubble uses them to recognise a CPU-bound
// loop in the code under test, which virtual time cannot see.
var (
	InFlightSince atomic.Int64
	// InFlightCPU is the process CPU time (see CPUNow) when the execution in progress began.
	InFlightCPU atomic.Int64
	InFlightDesc  atomic.Value
)

func wallNow() int64 { return realNow() }

// Run executes one history under the given chooser. It must be called from inside a test.
func Run(t *testing.T, s *Scenario, ch *explore.Chooser, after func(h *Hist)) {
	InFlightDesc.Store(s.Name + " prefix=" + fmt.Sprint(ch.Run().Prefix))
	InFlightCPU.Store(CPUNow())
	InFlightSince.Store(wallNow())
	defer InFlightSince.Store(0)
	// a scan that hangs (reported as such by the history) leaves its goroutines blocked for ever; the
	// bubble then refuses to end quietly. That complaint is expected after a reported hang, and only then.
	sawHang := false
	defer func() {
		if r := recover(); r != nil {
			if sawHang && strings.Contains(fmt.Sprint(r), "blocked goroutines remain") {
				return
			}
			panic(r)
		}
	}()
	synctest.Test(t, func(t *testing.T) {
		h := &Hist{S: s, Ch: ch, W: sim.NewWorld(), Cov: map[string]int64{}}
		defer func() { sawHang = h.SawHang }()
		defer func() {
			if r := recover(); r != nil {
				if d, ok := r.(explore.Diverged); ok && s.Lenient {
					h.DivergedMsg = d.Msg
					if after != nil {
						after(h)
					}
					return
				}
				panic(r)
			}
		}()
		h.T0 = time.Now()
		h.W.D = h
		h.W.DescribeOmit = func(asg string) bool {
			if h.scanActive && !h.inBuild && h.SlotFlags["describe-omits:"+asg] {
				h.Trace = append(h.Trace, "  asg.describe answers without "+asg)
				return true
			}
			return false
		}
		for _, g := range s.Groups {
			h.W.Groups = append(h.W.Groups, g.Opts.Name)
			h.W.GroupASG[g.Opts.Name] = g.Opts.CloudProviderGroupName
		}
		if s.Monitors != nil {
			h.Monitors = s.Monitors()
		}
		s.Init(h)
		h.needRestart = true
		for h.Slot = 0; h.Slot < s.Slots && !h.Abort; h.Slot++ {
			h.slot()
		}
		if after != nil {
			after(h)
		}
	})
}

func (h *Hist) slot() {
	s := h.S
	h.Stale, h.SkipSettle, h.Restart, h.ExtraTicks, h.PermNodes, h.PermPods = false, false, false, 0, 0, 0
	h.SlotFlags = map[string]bool{}
	h.PostSync = nil
	h.Trace = append(h.Trace, fmt.Sprintf("slot %d t=+%s", h.Slot, time.Since(h.T0)))
	if s.Script != nil {
		s.Script(h, h.Slot)
	}
	if s.Events != nil {
		menu := s.Events(h, h.Slot)
		last := 0
		for n := 0; n < s.MaxEventsPerSlot && last < len(menu); n++ {
			w := 1
			k := h.Ch.ChooseW(len(menu)-last+1, w, fmt.Sprintf("s%d.ev", h.Slot))
			if k == 0 {
				break
			}
			ev := menu[last+k-1]
			last += k
			h.Trace = append(h.Trace, "  event "+ev.Label)
			ev.Apply(h)
		}
	}
	if h.Restart || h.needRestart || h.C == nil {
		h.needRestart = false
		if h.Restart {
			h.Trace = append(h.Trace, "  (controller restarted)")
		}
		if !h.NewController() {
			h.Trace = append(h.Trace, "  start-up failed")
			h.needRestart = true
		}
	}
	if !h.Stale {
		h.W.Sync()
	}
	for _, f := range h.PostSync {
		f(h)
	}
	if h.PermNodes > 0 && len(h.W.ViewNodes) > 1 {
		k := h.PermNodes % len(h.W.ViewNodes)
		h.W.ViewNodes = append(append([]*v1.Node(nil), h.W.ViewNodes[k:]...), h.W.ViewNodes[:k]...)
		if len(h.W.ViewTruth) == len(h.W.ViewNodes) {
			h.W.ViewTruth = append(append([]*v1.Node(nil), h.W.ViewTruth[k:]...), h.W.ViewTruth[:k]...)
		}
	}
	if h.C != nil {
		h.scan()
	}
	if !h.SkipSettle {
		h.W.Settle()
	}
	// advance to the next grid point (strictly later than now)
	q := s.Quantum
	el := time.Since(h.T0)
	next := (el/q + 1) * q
	next += time.Duration(h.ExtraTicks) * q
	time.Sleep(next - el)
	if h.OnSlotEnd != nil {
		h.OnSlotEnd(h)
	}
}

func (h *Hist) scan() {
	w := h.W
	ctx := h.newScanCtx()
	w.BeginScan()
	ctx.Scan = w.Scan
	h.scanActive = true
	res := h.runOnce()
	h.scanActive = false
	w.EndScan()
	ctx.Res = res
	ctx.Entries = append([]sim.Entry(nil), w.J[h.journalMark:]...)
	h.journalMark = len(w.J)
	for _, e := range ctx.Entries {
		if e.Err == "" && (e.Op == sim.OpSetDesired || e.Op == sim.OpAttach) {
			h.lifeScaledUp = true
		}
		if e.Err == "" && e.Op == sim.OpTerminate {
			h.lifeRemoved = true
		}
		if e.Err == "injected" || e.Err == "conflict" {
			ctx.Faulted = true // an injected failure, or an update refused because another client wrote first
		}
	}
	h.Scans++
	if h.C != nil && !res.Hang {
		ctx.Post = h.C.VerifDumpState()
	}
	tr := fmt.Sprintf("  scan %d:", w.Scan)
	var lookups []string
	for _, e := range ctx.Entries {
		if e.Op == sim.OpDescribeIns {
			// issued while ranging over a map: order is not deterministic, so they are listed sorted
			if e.Err != "" {
				lookups = append(lookups, shortEntry(e))
			}
			continue
		}
		if e.Write() || e.Err != "" {
			tr += " " + shortEntry(e)
		}
	}
	sort.Strings(lookups)
	if res.Panic != nil && len(lookups) > 0 {
		// the scan died inside the map-ordered lookup loop: which lookups ran first is not deterministic
		tr += " ec2.describeinstances(some failed)"
	} else {
		for _, l := range lookups {
			tr += " " + l
		}
	}
	if res.Err != nil {
		tr += " => err: " + res.Err.Error()
	}
	if res.Panic != nil {
		tr += fmt.Sprintf(" => PANIC %v", res.Panic)
	}
	if res.Killed {
		tr += " => killed"
	}
	if res.Exit {
		tr += " => exit requested"
	}
	h.Trace = append(h.Trace, tr)
	h.Summaries = append(h.Summaries, summarize(ctx))
	for _, m := range h.Monitors {
		h.Viol = append(h.Viol, m.AfterScan(ctx)...)
	}
	if res.Err != nil || res.Panic != nil || res.Killed || res.Exit || res.Hang {
		// the controller lifetime is over: the process exits and is restarted
		h.needRestart = true
		h.C = nil
	}
}

func shortEntry(e sim.Entry) string {
	s := e.Op + "(" + e.Target
	switch e.Op {
	case sim.OpSetDesired, sim.OpCreateFleet:
		s += fmt.Sprintf("=%d", e.Val)
	case sim.OpAttach, sim.OpTermIns:
		s += fmt.Sprintf(" n=%d", len(e.IDs))
	case sim.OpK8sUpdate:
		s += ":" + taintSummary(e.Sent)
	}
	s += ")"
	if e.Err != "" {
		s += "!" + e.Err
	}
	return s
}

func taintSummary(n *v1.Node) string {
	if n == nil {
		return ""
	}
	var ks []string
	for _, t := range n.Spec.Taints {
		ks = append(ks, strings.TrimPrefix(t.Key, "atlassian.com/")+"="+t.Value)
	}
	sort.Strings(ks)
	return strings.Join(ks, ";")
}

// ScanSummary is the per-group list of writes of one scan in a canonical, comparable form.
type ScanSummary struct {
	Scan    int
	ByGroup map[string][]string
	Fatal   bool
	Removed map[string][]string // per group: nodes terminated or deleted (successful calls)
	NonRem  map[string][]string // per group: every other write
	// Protected: view nodes with a non-empty no-delete annotation and no force-removal taint.
	Protected map[string]bool
}

func summarize(ctx *ScanCtx) ScanSummary {
	s := ScanSummary{Scan: ctx.Scan, ByGroup: map[string][]string{}, Removed: map[string][]string{}, NonRem: map[string][]string{}}
	s.Protected = map[string]bool{}
	for _, g := range ctx.Groups {
		for _, n := range g.Nodes {
			if _, f := HasTaint(n, ForceTaintKey); !f && n.Annotations[NoDeleteKey] != "" {
				s.Protected[n.Name] = true
			}
		}
	}
	s.Fatal = ctx.Res.Err != nil || ctx.Res.Panic != nil || ctx.Res.Killed || ctx.Res.Exit || ctx.Res.Hang
	for _, e := range ctx.Entries {
		if !e.Write() {
			continue
		}
		g := ctx.EntryGroup(e)
		d := shortEntry(e)
		s.ByGroup[g] = append(s.ByGroup[g], d)
		switch e.Op {
		case sim.OpTerminate:
			name := e.Target
			if _, n := ctx.NodeOfInstance(e.Target); n != nil {
				name = n.Name
			}
			s.Removed[g] = append(s.Removed[g], "terminate:"+name+"!"+e.Err)
		case sim.OpK8sDelete:
			s.Removed[g] = append(s.Removed[g], "delete:"+e.Target+"!"+e.Err)
		default:
			s.NonRem[g] = append(s.NonRem[g], d)
		}
	}
	return s
}
