package h

import (
	"syscall"
	"time"
)

// realNow is the wall clock; it must only be called outside a synctest bubble.
func realNow() int64 { return time.Now().UnixNano() }

// CPUNow is the CPU time (user + system, nanoseconds) this process has consumed so far. The stall
// watchdog measures an execution by it rather than by the wall clock: a spinning execution burns CPU,
// a machine that is frozen or badly overloaded does not.
func CPUNow() int64 {
	var ru syscall.Rusage
	if err := syscall.Getrusage(syscall.RUSAGE_SELF, &ru); err != nil {
		return 0
	}
	return ru.Utime.Nano() + ru.Stime.Nano()
}
