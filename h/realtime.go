package h

import "time"

// realNow is the wall clock; it must only be called outside a synctest bubble.
func realNow() int64 { return time.Now().UnixNano() }
