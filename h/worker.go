package h

import (
	"crypto/sha1"
	"encoding/hex"
	"encoding/json"
	"fmt"
	"os"
	"reflect"
	"sort"
	"strings"
	"testing"
	"time"

	"verif/explore"
)

// Found is one violation together with the execution that exhibits it.
type Found struct {
	Violation
	Scenario string   `json:"scenario"`
	Choices  []int    `json:"choices"`
	Devs     int      `json:"deviations"`
	Trace    []string `json:"trace"`
	Case     any      `json:"case,omitempty"`
	Count    int64    `json:"count"`
}

// ShardResult is what one worker process reports.
type ShardResult struct {
	Shard        int              `json:"shard"`
	Executions   int64            `json:"executions"`
	Scans        int64            `json:"scans"`
	Transitions  int64            `json:"transitions"`
	ChoicePoints int64            `json:"choice_points"`
	States       int64            `json:"states"`
	Pruned       int64            `json:"pruned"`
	MaxDev       int              `json:"max_deviations_completed"`
	Capped       bool             `json:"capped"`
	Evaluations  int64            `json:"evaluations"`
	Nontrivial   int64            `json:"distinct_nontrivial"`
	Cov          map[string]int64 `json:"coverage"`
	Found        []Found          `json:"found"`
	Samples      []any            `json:"samples"`
	Outcomes     int64            `json:"distinct_outcomes"`
	HarnessError string           `json:"harness_error,omitempty"`
	StateKeys    []string         `json:"-"`
	NontrivKeys  []string         `json:"-"`
	Notes        []string         `json:"notes,omitempty"`
}

// Collector gathers results inside one worker.
type Collector struct {
	R        ShardResult
	bySig    map[string]int
	states   map[string]int // key -> max budget expanded
	nontriv  map[string]struct{}
	outcomes map[string]struct{}
	Deadline time.Time
}

func NewCollector(shard int) *Collector {
	return &Collector{R: ShardResult{Shard: shard, Cov: map[string]int64{}}, bySig: map[string]int{}, states: map[string]int{}, nontriv: map[string]struct{}{}, outcomes: map[string]struct{}{}}
}

// ResetStates forgets which states were expanded with which budget (a new deviation bound starts);
// the set of distinct state keys seen is kept for the evidence count.
func (c *Collector) ResetStates() {
	for k := range c.states {
		c.states[k] = -1
	}
}

// Nontrivial records a distinct non-trivial case.
func (c *Collector) Nontrivial(key string) {
	// keys can be long (whole traces): keep a fixed-size digest
	sum := sha1.Sum([]byte(key))
	c.nontriv[hex.EncodeToString(sum[:10])] = struct{}{}
}

// Outcome records a distinct observed outcome.
func (c *Collector) Outcome(key string) { c.outcomes[key] = struct{}{} }

// Report records a violation; the first (fewest-deviation) witness per signature is kept.
func (c *Collector) Report(f Found) {
	key := f.Prop + "|" + f.Sig
	if i, ok := c.bySig[key]; ok {
		c.R.Found[i].Count++
		if f.Devs < c.R.Found[i].Devs || (f.Devs == c.R.Found[i].Devs && len(f.Choices) < len(c.R.Found[i].Choices)) {
			n := c.R.Found[i].Count
			c.R.Found[i] = f
			c.R.Found[i].Count = n
		}
		return
	}
	f.Count = 1
	c.bySig[key] = len(c.R.Found)
	c.R.Found = append(c.R.Found, f)
}

func (c *Collector) Finish() {
	c.R.States = int64(len(c.states))
	c.R.Nontrivial = int64(len(c.nontriv))
	c.R.Outcomes = int64(len(c.outcomes))
	for k := range c.states {
		c.R.StateKeys = append(c.R.StateKeys, k)
	}
	for k := range c.nontriv {
		c.R.NontrivKeys = append(c.R.NontrivKeys, k)
	}
}

// Write stores the shard result (and the distinct keys, for exact merging) as JSON.
func (c *Collector) Write(path string) error {
	c.Finish()
	type full struct {
		ShardResult
		StateKeys   []string `json:"state_keys"`
		NontrivKeys []string `json:"nontrivial_keys"`
	}
	b, err := json.Marshal(full{c.R, c.R.StateKeys, c.R.NontrivKeys})
	if err != nil {
		return err
	}
	return os.WriteFile(path, b, 0o644)
}

// HOpts parameterise one exploration.
type HOpts struct {
	Bound         int
	Shard, Shards int
	Prune         bool
	// Nontrivial is called for each finished execution and returns keys of the non-trivial
	// situations it exercised.
	Nontrivial func(h *Hist) []string
	SampleMax  int
}

// ExploreScenario explores one scenario exhaustively within the bound and feeds the collector.
func ExploreScenario(t *testing.T, s *Scenario, o HOpts, c *Collector) {
	if s.BoundExact > 0 {
		if o.Bound != s.BoundExact {
			c.R.Notes = append(c.R.Notes, fmt.Sprintf("scenario family %s is explored with exactly %d deviations whatever the tier's bound", covFamily(s), s.BoundExact))
		}
		o.Bound = s.BoundExact
	}
	if s.BoundCap > 0 && o.Bound > s.BoundCap {
		c.R.Notes = append(c.R.Notes, fmt.Sprintf("scenario family %s is capped at %d deviations (the tier's bound is higher)", covFamily(s), s.BoundCap))
		o.Bound = s.BoundCap
	}
	ex := &explore.Explorer{Bound: o.Bound, Shard: o.Shard, Shards: o.Shards}
	if !c.Deadline.IsZero() {
		n := 0
		ex.Stop = func() bool {
			n++
			return n%64 == 0 && time.Now().After(c.Deadline)
		}
	}
	var cur *Hist
	audit := 0
	// the per-slot hook does state bookkeeping and pruning
	orig := s.Init
	s2 := *s
	s2.Init = func(h *Hist) {
		orig(h)
		h.OnSlotEnd = func(h *Hist) {
			if h.Ch.Owned() {
				c.R.Transitions++
			}
			k := s.Name + "/" + h.StateKey()
			left := h.Ch.Left()
			prev, seen := c.states[k]
			if !seen {
				c.states[k] = -1
			}
			if h.Ch.InPrefix() {
				return
			}
			if (o.Prune || s.Prune) && seen && prev >= left {
				h.Ch.CutHere()
				return
			}
			if left > prev {
				c.states[k] = left
			}
		}
	}
	if s.Prepare != nil {
		s.Prepare(t, s)
	}
	ex.Exec = func(ch *explore.Chooser) {
		Run(t, &s2, ch, func(h *Hist) { cur = h })
		h := cur
		if !ch.Owned() {
			return
		}
		if s.Twin != nil {
			s.Twin(t, s, h, explore.Choices(runOf(ch)))
		}
		c.R.Scans += h.Scans
		covName := s.Name
		if s.CovName != "" {
			covName = s.CovName
		}
		for k, v := range h.Cov {
			c.R.Cov[covName+"."+k] += v
		}
		if o.Nontrivial != nil {
			for _, k := range o.Nontrivial(h) {
				c.Nontrivial(s.Name + "/" + k)
			}
		}
		c.Outcome(outcomeKey(h))
		// determinism audit: every 101st execution is run a second time from its recorded choices on a
		// fresh world and controller; the two traces (every call, answer and decision) must be identical
		audit++
		if audit%101 == 0 {
			var again *Hist
			ex2 := &explore.Explorer{Bound: 1 << 30}
			ex2.Exec = func(ch2 *explore.Chooser) { Run(t, s, ch2, func(h2 *Hist) { again = h2 }) }
			ex2.RunPrefix(explore.Choices(runOf(ch)))
			c.R.Cov["determinism_rechecks"]++
			if again == nil || !reflect.DeepEqual(again.Trace, h.Trace) {
				panic(fmt.Sprintf("non-deterministic execution in %s (choices %v): the same choices gave a different trace", s.Name, explore.Choices(runOf(ch))))
			}
		}
		for _, v := range h.Viol {
			r := runOf(ch)
			c.Report(Found{Violation: v, Scenario: s.Name, Choices: explore.Choices(r), Devs: ch.Spent(), Trace: append([]string(nil), h.Trace...)})
		}
		if len(c.R.Samples) < o.SampleMax && (ch.Spent() == o.Bound || c.R.Executions == 0) {
			c.R.Samples = append(c.R.Samples, map[string]any{"scenario": s.Name, "choices": explore.Describe(runOf(ch)), "trace": h.Trace})
		}
	}
	ex.Explore()
	c.R.Executions += ex.Stats.Executions
	c.R.Evaluations += ex.Stats.Executions
	c.R.ChoicePoints += ex.Stats.ChoicePoints
	c.R.Pruned += ex.Stats.Pruned
	if ex.Capped {
		c.R.Capped = true
	}
}

func covFamily(s *Scenario) string {
	if s.CovName != "" {
		return s.CovName
	}
	return s.Name
}

func runOf(ch *explore.Chooser) *explore.Run { return ch.Run() }

func outcomeKey(h *Hist) string {
	var b strings.Builder
	for _, l := range h.Trace {
		if strings.HasPrefix(l, "  scan") {
			b.WriteString(l)
		}
	}
	return b.String()
}

// ReplayScenario re-executes one choice sequence and returns the finished history.
func ReplayScenario(t *testing.T, s *Scenario, choices []int, bound int) *Hist {
	var cur *Hist
	if s.Prepare != nil {
		s.Prepare(t, s)
	}
	defer func() {
		if cur != nil && s.Twin != nil {
			s.Twin(t, s, cur, choices)
		}
	}()
	ex := &explore.Explorer{Bound: bound}
	ex.Exec = func(ch *explore.Chooser) { Run(t, s, ch, func(h *Hist) { cur = h }) }
	ex.RunPrefix(choices)
	return cur
}

// SortedCov renders coverage counters deterministically.
func SortedCov(m map[string]int64) []string {
	ks := make([]string, 0, len(m))
	for k := range m {
		ks = append(ks, k)
	}
	sort.Strings(ks)
	out := make([]string, 0, len(ks))
	for _, k := range ks {
		out = append(out, fmt.Sprintf("%s=%d", k, m[k]))
	}
	return out
}

// RunTwin executes the given choices on a variant scenario, leniently (the twin may stop early).
func RunTwin(t *testing.T, s *Scenario, choices []int) *Hist {
	var cur *Hist
	ex := &explore.Explorer{Bound: 1 << 30}
	ex.Exec = func(ch *explore.Chooser) { Run(t, s, ch, func(h *Hist) { cur = h }) }
	ex.RunLenient(choices)
	return cur
}
