package h

import (
	"fmt"
	"runtime/debug"
	"strconv"
	"strings"
	"time"

	"github.com/atlassian/escalator/pkg/controller"
	v1 "k8s.io/api/core/v1"

	"verif/sim"
)

const (
	TaintKey      = "atlassian.com/escalator"
	ForceTaintKey = "atlassian.com/escalator-force"
	NoDeleteKey   = "atlassian.com/no-delete"
)

// Violation is one property violation found in one execution.
type Violation struct {
	Prop string `json:"property"`
	Sig  string `json:"signature"`
	Msg  string `json:"message"`
}

// Monitor observes every scan of an execution.
type Monitor interface {
	AfterScan(ctx *ScanCtx) []Violation
	// Key is the monitor's own state, folded into the canonical state key.
	Key() string
}

// GroupView is one node group as the scan saw it (pre-scan informer view), classified the way the
// properties are stated: cordoned nodes are split off first.
type GroupView struct {
	Spec  *GroupSpec
	Name  string
	Dry   bool
	Nodes []*v1.Node
	Pods  []*v1.Pod
	// PodsOn counts the group's non-daemonset pods bound to each node.
	PodsOn     map[string]int
	U, T, F, C []*v1.Node
	// Min / Max are the bounds in force for this scan (the cloud group's when auto-discovered).
	Min, Max int
	// CloudMin / CloudMax / CloudDesired are the ASG's values when the scan began.
	CloudMin, CloudMax, CloudDesired int64
	ASGName                           string
}

// ScanCtx is everything a monitor may look at for one scan.
type ScanCtx struct {
	H       *Hist
	Scan    int
	Start   time.Time
	Groups  []*GroupView
	Entries []sim.Entry
	Res     ScanResult
	Pre     []controller.VerifGroupState
	Post    []controller.VerifGroupState
	Fresh   bool // first scan of a controller lifetime
	Faulted bool // some call of this scan was answered with an injected fault
}

// Group returns the view of the named group.
func (c *ScanCtx) Group(name string) *GroupView {
	for _, g := range c.Groups {
		if g.Name == name {
			return g
		}
	}
	return nil
}

// GroupOfNode returns the group whose label the named view node carries.
func (c *ScanCtx) GroupOfNode(node string) (*GroupView, *v1.Node) {
	for _, g := range c.Groups {
		for _, n := range g.Nodes {
			if n.Name == node {
				return g, n
			}
		}
	}
	return nil, nil
}

// GroupOfASG returns the group backed by the named ASG.
func (c *ScanCtx) GroupOfASG(asg string) *GroupView {
	for _, g := range c.Groups {
		if g.ASGName == asg {
			return g
		}
	}
	return nil
}

// NodeOfInstance maps an instance id back to the view node reporting it.
func (c *ScanCtx) NodeOfInstance(id string) (*GroupView, *v1.Node) {
	for _, g := range c.Groups {
		for _, n := range g.Nodes {
			if sim.InstanceIDOf(n.Spec.ProviderID) == id {
				return g, n
			}
		}
	}
	return nil, nil
}

func HasTaint(n *v1.Node, key string) (v1.Taint, bool) {
	for _, t := range n.Spec.Taints {
		if t.Key == key {
			return t, true
		}
	}
	return v1.Taint{}, false
}

// TaintTime parses the escalator taint value as base-10 Unix seconds.
func TaintTime(n *v1.Node) (time.Time, bool) {
	t, ok := HasTaint(n, TaintKey)
	if !ok {
		return time.Time{}, false
	}
	sec, err := strconv.ParseInt(t.Value, 10, 64)
	if err != nil {
		return time.Time{}, false
	}
	return time.Unix(sec, 0), true
}

func isDaemonSet(p *v1.Pod) bool {
	for _, o := range p.OwnerReferences {
		if o.Kind == "DaemonSet" {
			return true
		}
	}
	return false
}

// PodInGroup is the harness's own statement of pod attribution (C14's statement): not
// DaemonSet-owned and selected by the node selector or by a required node-affinity In expression on
// the group's key listing its value; for the default group: no selector, no affinity, not static.
func PodInGroup(p *v1.Pod, g *GroupSpec) bool {
	if isDaemonSet(p) {
		return false
	}
	if g.Opts.Name == controller.DefaultNodeGroup {
		return len(p.Spec.NodeSelector) == 0 && p.Spec.Affinity == nil && p.Annotations["kubernetes.io/config.source"] != "file"
	}
	if v, ok := p.Spec.NodeSelector[g.Opts.LabelKey]; ok && v == g.Opts.LabelValue {
		return true
	}
	if a := p.Spec.Affinity; a != nil && a.NodeAffinity != nil && a.NodeAffinity.RequiredDuringSchedulingIgnoredDuringExecution != nil {
		for _, term := range a.NodeAffinity.RequiredDuringSchedulingIgnoredDuringExecution.NodeSelectorTerms {
			for _, e := range term.MatchExpressions {
				if e.Key != g.Opts.LabelKey || e.Operator != v1.NodeSelectorOpIn {
					continue
				}
				for _, v := range e.Values {
					if v == g.Opts.LabelValue {
						return true
					}
				}
			}
		}
	}
	return false
}

func (h *Hist) newScanCtx() *ScanCtx {
	ctx := &ScanCtx{H: h, Start: time.Now()}
	if h.C != nil {
		ctx.Pre = h.C.VerifDumpState()
	}
	ctx.Fresh = h.freshController()
	for i := range h.S.Groups {
		spec := &h.S.Groups[i]
		g := &GroupView{Spec: spec, Name: spec.Opts.Name, PodsOn: map[string]int{}, ASGName: spec.Opts.CloudProviderGroupName}
		g.Dry = h.S.DryGlobal || spec.Opts.DryMode
		// the view as an honest informer cache holds it (the objects handed to the controller are
		// shared from scan to scan; if the controller wrote into one, its own view is corrupted)
		truth := h.W.ViewNodes
		if len(h.W.ViewTruth) == len(h.W.ViewNodes) {
			truth = h.W.ViewTruth
		}
		for _, n := range truth {
			if n.Labels[spec.Opts.LabelKey] == spec.Opts.LabelValue {
				g.Nodes = append(g.Nodes, n.DeepCopy())
			}
		}
		for _, p := range h.W.ViewPods {
			if PodInGroup(p, spec) {
				g.Pods = append(g.Pods, p.DeepCopy())
				if p.Spec.NodeName != "" {
					g.PodsOn[p.Spec.NodeName]++
				}
			}
		}
		for _, n := range g.Nodes {
			_, ft := HasTaint(n, ForceTaintKey)
			_, tt := HasTaint(n, TaintKey)
			switch {
			case n.Spec.Unschedulable:
				g.C = append(g.C, n)
			case ft:
				g.F = append(g.F, n)
			case tt:
				g.T = append(g.T, n)
			default:
				g.U = append(g.U, n)
			}
		}
		g.Min, g.Max = spec.Opts.MinNodes, spec.Opts.MaxNodes
		if a := h.W.FindASG(g.ASGName); a != nil {
			g.CloudMin, g.CloudMax, g.CloudDesired = a.Min, a.Max, a.Desired
			if spec.Opts.MinNodes == 0 && spec.Opts.MaxNodes == 0 {
				g.Min, g.Max = int(a.Min), int(a.Max)
			}
		}
		ctx.Groups = append(ctx.Groups, g)
	}
	return ctx
}

func (h *Hist) freshController() bool {
	if h.lastLifetimeScanned != h.Lifetimes {
		h.lastLifetimeScanned = h.Lifetimes
		return true
	}
	return false
}

// WritesFor returns the scan's write entries attributed (by target) to the group.
func (c *ScanCtx) WritesFor(g *GroupView) []sim.Entry {
	var out []sim.Entry
	for _, e := range c.Entries {
		if !e.Write() {
			continue
		}
		if c.EntryGroup(e) == g.Name {
			out = append(out, e)
		}
	}
	return out
}

// EntryGroup attributes a journal entry to a node group by its target (node label, instance's
// node, or ASG name); fleet calls are attributed by the group being processed.
func (c *ScanCtx) EntryGroup(e sim.Entry) string {
	switch e.Op {
	case sim.OpK8sGet, sim.OpK8sUpdate, sim.OpK8sDelete:
		if g, _ := c.GroupOfNode(e.Target); g != nil {
			return g.Name
		}
		if e.Before != nil {
			for _, g := range c.Groups {
				if e.Before.Labels[g.Spec.Opts.LabelKey] == g.Spec.Opts.LabelValue {
					return g.Name
				}
			}
		}
	case sim.OpSetDesired, sim.OpAttach, sim.OpTags, sim.OpDescribeASG:
		if g := c.GroupOfASG(e.Target); g != nil {
			return g.Name
		}
	case sim.OpTerminate:
		if g := c.GroupOfASG(e.Extra["asg"]); g != nil {
			return g.Name
		}
		if g, _ := c.NodeOfInstance(e.Target); g != nil {
			return g.Name
		}
	}
	return e.Group
}

// TaintAdded reports whether an update added the escalator taint to a node that did not have it
// in the API store.
func TaintAdded(e sim.Entry) bool {
	if e.Op != sim.OpK8sUpdate || e.Sent == nil || e.Before == nil {
		return false
	}
	_, before := HasTaint(e.Before, TaintKey)
	_, after := HasTaint(e.Sent, TaintKey)
	return !before && after
}

// TaintRemoved reports whether an update removed the escalator taint.
func TaintRemoved(e sim.Entry) bool {
	if e.Op != sim.OpK8sUpdate || e.Sent == nil || e.Before == nil {
		return false
	}
	_, before := HasTaint(e.Before, TaintKey)
	_, after := HasTaint(e.Sent, TaintKey)
	return before && !after
}

func shortStack() string {
	lines := strings.Split(string(debug.Stack()), "\n")
	var keep []string
	for _, l := range lines {
		if strings.Contains(l, "escalator/pkg") && !strings.HasPrefix(l, "\t") {
			keep = append(keep, strings.TrimSpace(l))
		}
	}
	if len(keep) > 6 {
		keep = keep[:6]
	}
	return strings.Join(keep, " <- ")
}

func fmtDur(d time.Duration) string { return fmt.Sprint(d) }
