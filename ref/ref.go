// Package ref is the boring reference model: the documented behaviour of one scan of one node
// group, restated in exact arithmetic from the pre-scan view. Monitors project from it only what
// their property states.
package ref

import (
	"math/big"
	"sort"
	"time"

	v1 "k8s.io/api/core/v1"

	"verif/h"
)

// PodRequest is max(sum of containers, largest init container) + overhead, per resource, in
// millicores and bytes (exact integers; quantities finer than that are rounded up as the
// Kubernetes Quantity accessors do).
func PodRequest(p *v1.Pod) (cpuMilli, memBytes int64) {
	for _, c := range p.Spec.Containers {
		if q, ok := c.Resources.Requests[v1.ResourceCPU]; ok {
			cpuMilli += q.MilliValue()
		}
		if q, ok := c.Resources.Requests[v1.ResourceMemory]; ok {
			memBytes += q.Value()
		}
	}
	for _, c := range p.Spec.InitContainers {
		if q, ok := c.Resources.Requests[v1.ResourceCPU]; ok && q.MilliValue() > cpuMilli {
			cpuMilli = q.MilliValue()
		}
		if q, ok := c.Resources.Requests[v1.ResourceMemory]; ok && q.Value() > memBytes {
			memBytes = q.Value()
		}
	}
	if q, ok := p.Spec.Overhead[v1.ResourceCPU]; ok {
		cpuMilli += q.MilliValue()
	}
	if q, ok := p.Spec.Overhead[v1.ResourceMemory]; ok {
		memBytes += q.Value()
	}
	return
}

// Decision is what the documentation says a scan of this group should do.
type Decision struct {
	// Class: "empty" (no nodes, no pods), "under-min" / "over-max" (node count outside bounds:
	// nothing happens), "restore" (fewer untainted than min), "undefined" (capacity 0 with
	// untainted nodes present), "fast", "slow", "idle", "up".
	Class string
	// Edge names the threshold exact utilisation sits on ("lower", "upper", "up"), "" otherwise.
	Edge string

	ReqCPU, ReqMem, CapCPU, CapMem int64
	// Util is max(cpu%, mem%) exactly; nil when capacity is zero.
	Util *big.Rat
	// FromZero: no untainted node (utilisation is infinite when anything is requested).
	FromZero bool

	// TaintWant is min(rate, |U| - min) for the fast / slow classes.
	TaintWant int
	// Need is the number of nodes to bring into service for "restore".
	Need int
	// NMin is the smallest total untainted node count N at which the same requests sit at or
	// below the scale-up threshold with equal-sized nodes (class "up", equal sizes only; 0 when
	// not computable).
	NMin int

	Starve bool // scale_on_starve trigger applies
	MaxAge bool // max_node_age trigger applies
}

func ratPercent(req, cap int64) *big.Rat {
	return new(big.Rat).SetFrac(new(big.Int).Mul(big.NewInt(req), big.NewInt(100)), big.NewInt(cap))
}

// Decide computes the reference decision for a group as seen by a scan starting at now.
func Decide(g *h.GroupView, now time.Time) Decision {
	var d Decision
	o := g.Spec.Opts
	total := len(g.Nodes)
	if total == 0 && len(g.Pods) == 0 {
		d.Class = "empty"
		return d
	}
	if total < g.Min {
		d.Class = "under-min"
		return d
	}
	if total > g.Max {
		d.Class = "over-max"
		return d
	}
	for _, p := range g.Pods {
		c, m := PodRequest(p)
		d.ReqCPU += c
		d.ReqMem += m
	}
	for _, n := range g.U {
		d.CapCPU += n.Status.Allocatable.Cpu().MilliValue()
		d.CapMem += n.Status.Allocatable.Memory().Value()
	}
	if len(g.U) < g.Min {
		d.Class = "restore"
		d.Need = g.Min - len(g.U)
		return d
	}
	d.FromZero = len(g.U) == 0
	switch {
	case d.CapCPU == 0 || d.CapMem == 0:
		if d.ReqCPU == 0 && d.ReqMem == 0 && d.CapCPU == 0 && d.CapMem == 0 && len(g.U) == 0 {
			d.Util = new(big.Rat) // nothing requested, nothing there: 0 %
		} else if len(g.U) == 0 {
			d.Util = nil // infinite
		} else {
			d.Class = "undefined"
			return d
		}
	default:
		uc, um := ratPercent(d.ReqCPU, d.CapCPU), ratPercent(d.ReqMem, d.CapMem)
		d.Util = uc
		if um.Cmp(uc) > 0 {
			d.Util = um
		}
	}
	lower := big.NewRat(int64(o.TaintLowerCapacityThresholdPercent), 1)
	upper := big.NewRat(int64(o.TaintUpperCapacityThresholdPercent), 1)
	up := big.NewRat(int64(o.ScaleUpThresholdPercent), 1)
	room := len(g.U) - g.Min
	if room < 0 {
		room = 0
	}
	min := func(a, b int) int {
		if a < b {
			return a
		}
		return b
	}
	switch {
	case d.Util == nil:
		d.Class = "up"
	case d.Util.Cmp(lower) < 0:
		d.Class = "fast"
		d.TaintWant = min(o.FastNodeRemovalRate, room)
	case d.Util.Cmp(upper) < 0:
		d.Class = "slow"
		d.TaintWant = min(o.SlowNodeRemovalRate, room)
		if d.Util.Cmp(lower) == 0 {
			d.Edge = "lower"
		}
	case d.Util.Cmp(up) <= 0:
		d.Class = "idle"
		if d.Util.Cmp(upper) == 0 {
			d.Edge = "upper"
		}
		if d.Util.Cmp(up) == 0 {
			d.Edge = "up"
		}
	default:
		d.Class = "up"
	}
	if d.Class == "up" {
		d.NMin = nMin(g, d, int64(o.ScaleUpThresholdPercent))
	}
	// documented overrides
	if o.ScaleOnStarve && len(g.U) < g.Max {
		d.Starve = starved(g)
	}
	if dur, err := time.ParseDuration(o.MaxNodeAge); err == nil && dur > 0 {
		if len(g.U) == g.Min && len(g.U) > 0 && len(g.T) == 0 {
			for _, n := range g.U {
				if now.Sub(n.CreationTimestamp.Time) > dur {
					d.MaxAge = true
				}
			}
		}
	}
	return d
}

// nMin: least N with 100*req <= T*N*size for both resources, for equal-sized untainted nodes.
func nMin(g *h.GroupView, d Decision, threshold int64) int {
	if len(g.U) == 0 {
		return 0
	}
	c := g.U[0].Status.Allocatable.Cpu().MilliValue()
	m := g.U[0].Status.Allocatable.Memory().Value()
	for _, n := range g.U {
		if n.Status.Allocatable.Cpu().MilliValue() != c || n.Status.Allocatable.Memory().Value() != m {
			return 0
		}
	}
	return NMinFor(d.ReqCPU, d.ReqMem, c, m, threshold)
}

// NMinFor is the least N with 100*reqCPU <= T*N*c and 100*reqMem <= T*N*m (exact integers).
func NMinFor(reqCPU, reqMem, c, m, threshold int64) int {
	if c <= 0 || m <= 0 || threshold <= 0 {
		return 0
	}
	ceilDiv := func(a, b *big.Int) *big.Int {
		q, r := new(big.Int).QuoRem(a, b, new(big.Int))
		if r.Sign() > 0 {
			q.Add(q, big.NewInt(1))
		}
		return q
	}
	nc := ceilDiv(new(big.Int).Mul(big.NewInt(reqCPU), big.NewInt(100)), new(big.Int).Mul(big.NewInt(threshold), big.NewInt(c)))
	nm := ceilDiv(new(big.Int).Mul(big.NewInt(reqMem), big.NewInt(100)), new(big.Int).Mul(big.NewInt(threshold), big.NewInt(m)))
	if nm.Cmp(nc) > 0 {
		nc = nm
	}
	return int(nc.Int64())
}

// starved: some pending group pod is larger (in CPU or in memory) than the largest free space on
// any untainted node.
func starved(g *h.GroupView) bool {
	var bigCPU, bigMem int64
	pending := false
	for _, p := range g.Pods {
		if p.Status.Phase != v1.PodPending {
			continue
		}
		c, m := PodRequest(p)
		if c == 0 && m == 0 {
			continue
		}
		pending = true
		if c > bigCPU {
			bigCPU = c
		}
		if m > bigMem {
			bigMem = m
		}
	}
	if !pending {
		return false
	}
	var freeCPU, freeMem int64
	for _, n := range g.U {
		c := n.Status.Allocatable.Cpu().MilliValue()
		m := n.Status.Allocatable.Memory().Value()
		for _, p := range g.Pods {
			if p.Spec.NodeName != n.Name {
				continue
			}
			sched := false
			for _, cond := range p.Status.Conditions {
				if cond.Type == v1.PodScheduled && cond.Status == v1.ConditionTrue {
					sched = true
				}
			}
			if sched && (p.Status.Phase == v1.PodPending || p.Status.Phase == v1.PodRunning) {
				pc, pm := PodRequest(p)
				c -= pc
				m -= pm
			}
		}
		if c > freeCPU {
			freeCPU = c
		}
		if m > freeMem {
			freeMem = m
		}
	}
	return bigCPU > freeCPU || bigMem > freeMem
}

// NewestFirst orders tainted nodes newest-created first; Ties reports the groups of equal
// creation time (any order within a tie is acceptable).
func NewestFirst(nodes []*v1.Node) []*v1.Node {
	out := append([]*v1.Node(nil), nodes...)
	sort.SliceStable(out, func(i, j int) bool {
		return out[j].CreationTimestamp.Time.Before(out[i].CreationTimestamp.Time)
	})
	return out
}
