package verif

import (
	"crypto/sha1"
	"encoding/hex"
	"encoding/json"
	"fmt"
	"os"
	"os/exec"
	"path/filepath"
	"reflect"
	"runtime"
	"sort"
	"strconv"
	"strings"
	"sync"
	"testing"
	"time"

	"verif/h"
	"verif/props"
)

// The binary has three roles, selected by VERIF_ROLE:
//   parent (default) — spawn worker processes, merge, classify against known_findings.json,
//                      write evidence and replay files, print VIOLATION / KNOWN-FINDING lines;
//   worker           — explore one shard of one property's check (needs *testing.T for synctest);
//   replay           — re-execute one replay file and print its trace.

func env(k, def string) string {
	if v := os.Getenv(k); v != "" {
		return v
	}
	return def
}

func TestMain(m *testing.M) {
	switch env("VERIF_ROLE", "parent") {
	case "worker", "replay":
		os.Exit(m.Run())
	default:
		os.Exit(parent())
	}
}

type knownFinding struct {
	Property  string `json:"property"`
	Signature string `json:"signature"`
	Status    string `json:"status"` // open | fixed
	Commit    string `json:"commit,omitempty"`
	WhatFails string `json:"what_fails"`
}

type shardFile struct {
	h.ShardResult
	StateKeys   []string `json:"state_keys"`
	NontrivKeys []string `json:"nontrivial_keys"`
}

func verifDir() string { return env("VERIF_DIR", "/verif") }

// replayDir: where violation witnesses are written (runs against deliberately broken trees use a
// scratch directory so that they do not mix with witnesses from the unchanged tree).
func replayDir() string { return env("VERIF_REPLAY_DIR", filepath.Join(verifDir(), "replays")) }

func parent() int {
	id := os.Getenv("VERIF_PROP")
	tier := env("VERIF_TIER", "quick")
	chk := props.Get(id)
	if chk == nil {
		fmt.Fprintf(os.Stderr, "unknown property %q\n", id)
		return 2
	}
	seed, _ := strconv.Atoi(env("VERIF_SEED", "0"))
	shards, _ := strconv.Atoi(env("VERIF_SHARDS", strconv.Itoa(runtime.NumCPU())))
	if shards < 1 {
		shards = 1
	}
	deadline := env("VERIF_DEADLINE_S", map[string]string{"quick": "420", "thorough": "3600"}[tier])
	start := time.Now()
	tmp, err := os.MkdirTemp("", "verif-"+id+"-")
	if err != nil {
		fmt.Fprintln(os.Stderr, err)
		return 2
	}
	defer os.RemoveAll(tmp)

	var wg sync.WaitGroup
	var herrs []string
	errs := make([]error, shards)
	outs := make([][]byte, shards)
	for i := 0; i < shards; i++ {
		wg.Add(1)
		go func(i int) {
			defer wg.Done()
			// VERIF_SEED only rotates which process takes which shard
			sh := (i + seed) % shards
			cmd := exec.Command(os.Args[0], "-test.run", "^TestWorker$", "-test.timeout", "0")
			cmd.Env = append(os.Environ(), "VERIF_ROLE=worker", fmt.Sprintf("VERIF_SHARD=%d/%d", sh, shards),
				"VERIF_OUT="+filepath.Join(tmp, fmt.Sprintf("shard-%d.json", sh)), "VERIF_DEADLINE_S="+deadline, "GOMAXPROCS=1", "GOGC=400")
			outs[i], errs[i] = cmd.CombinedOutput()
		}(i)
	}
	wg.Wait()
	for i, e := range errs {
		if e != nil {
			// a worker that found one execution spinning (CPU-bound, never blocking) reports it and exits 3
			for sh := 0; sh < shards; sh++ {
				if b, err := os.ReadFile(filepath.Join(tmp, fmt.Sprintf("shard-%d.json.hang", sh))); err == nil {
					if id == "C20" {
						os.MkdirAll(replayDir(), 0o755)
						path := filepath.Join(replayDir(), "C20-hang.json")
						jb, _ := json.MarshalIndent(map[string]any{"property": "C20", "signature": "C20/hang/cpu-bound", "message": "an execution did not finish in real time (the scan spins without blocking)", "execution": string(b)}, "", " ")
						os.WriteFile(path, jb, 0o644)
						fmt.Printf("VIOLATION property=C20 replay=%s\n  signature: C20/hang/cpu-bound\n  execution %s used more CPU time than the stall limit allows without finishing\n", path, string(b))
						return 1
					}
					fmt.Fprintf(os.Stderr, "HARNESS-ERROR: execution %s used more CPU time than the stall limit allows without finishing (the code under test spins); this property's check cannot proceed\n", string(b))
					return 2
				}
			}
			// the shard is lost; violations confirmed by other shards are still reported (see the end)
			herrs = append(herrs, fmt.Sprintf("worker %d: %v\n%s", i, e, tail(string(outs[i]), 4000)))
		}
	}

	// merge
	var tot h.ShardResult
	tot.Cov = map[string]int64{}
	states := map[string]struct{}{}
	nontriv := map[string]struct{}{}
	found := map[string]*h.Found{}
	for i := 0; i < shards; i++ {
		b, err := os.ReadFile(filepath.Join(tmp, fmt.Sprintf("shard-%d.json", i)))
		if err != nil {
			herrs = append(herrs, fmt.Sprintf("missing shard result %d: %v", i, err))
			continue
		}
		var sf shardFile
		if err := json.Unmarshal(b, &sf); err != nil {
			herrs = append(herrs, fmt.Sprintf("bad shard result %d: %v", i, err))
			continue
		}
		if sf.HarnessError != "" {
			herrs = append(herrs, fmt.Sprintf("shard %d: %s", i, sf.HarnessError))
			continue
		}
		tot.Executions += sf.Executions
		tot.Scans += sf.Scans
		tot.Transitions += sf.Transitions
		tot.ChoicePoints += sf.ChoicePoints
		tot.Pruned += sf.Pruned
		tot.Evaluations += sf.Evaluations
		tot.Outcomes += sf.Outcomes
		if i == 0 || sf.MaxDev < tot.MaxDev {
			tot.MaxDev = sf.MaxDev // completed by every shard
		}
		tot.Capped = tot.Capped || sf.Capped
		for k, v := range sf.Cov {
			tot.Cov[k] += v
		}
		for _, k := range sf.StateKeys {
			states[k] = struct{}{}
		}
		for _, k := range sf.NontrivKeys {
			nontriv[k] = struct{}{}
		}
		for _, f := range sf.Found {
			f := f
			key := f.Prop + "|" + f.Sig
			if g, ok := found[key]; ok {
				n := g.Count + f.Count
				if f.Devs < g.Devs || (f.Devs == g.Devs && len(f.Choices) < len(g.Choices)) {
					*g = f
				}
				g.Count = n
			} else {
				found[key] = &f
			}
		}
		tot.Samples = append(tot.Samples, sf.Samples...)
		tot.Notes = append(tot.Notes, sf.Notes...)
	}
	// keep three samples, preferring executions that took deviations (one plain execution at most)
	{
		var plain, dev []any
		for _, s := range tot.Samples {
			if m, ok := s.(map[string]any); ok {
				if ch, ok := m["choices"].(string); ok && ch != "" {
					dev = append(dev, s)
					continue
				}
			}
			plain = append(plain, s)
		}
		var keep []any
		if len(plain) > 0 {
			keep = append(keep, plain[0])
		}
		for _, s := range dev {
			if len(keep) < 3 {
				keep = append(keep, s)
			}
		}
		for _, s := range plain[min(1, len(plain)):] {
			if len(keep) < 3 {
				keep = append(keep, s)
			}
		}
		tot.Samples = keep
	}

	// classify
	var known []knownFinding
	if b, err := os.ReadFile(filepath.Join(verifDir(), "known_findings.json")); err == nil {
		if err := json.Unmarshal(b, &known); err != nil {
			fmt.Fprintf(os.Stderr, "HARNESS-ERROR known_findings.json: %v\n", err)
			return 2
		}
	}
	keys := make([]string, 0, len(found))
	for k := range found {
		keys = append(keys, k)
	}
	sort.Strings(keys)
	os.MkdirAll(replayDir(), 0o755)
	violations := 0
	knownSeen := 0
	for _, k := range keys {
		f := found[k]
		if f.Prop != id {
			continue // a monitor of another property riding along; reported by that property's own check
		}
		isKnown := false
		for _, kf := range known {
			if kf.Status == "open" && kf.Property == f.Prop && kf.Signature == f.Sig {
				fmt.Printf("KNOWN-FINDING: property=%s %s [%s]\n", f.Prop, kf.WhatFails, f.Sig)
				isKnown = true
				knownSeen++
			}
		}
		path := writeReplay(id, tier, f)
		if !isKnown {
			fmt.Printf("VIOLATION property=%s replay=%s\n", f.Prop, path)
			fmt.Printf("  signature: %s\n  %s\n  witnesses: %d, fewest deviations: %d\n", f.Sig, f.Msg, f.Count, f.Devs)
			violations++
		}
	}

	wall := time.Since(start).Seconds()
	exhaustive := !tot.Capped && len(herrs) == 0
	if len(herrs) > 0 {
		tot.Notes = append(tot.Notes, fmt.Sprintf("%d shard(s) were lost to a harness error; the counts cover the surviving shards only", len(herrs)))
	}
	cov := map[string]any{
		"evaluations":         tot.Evaluations,
		"distinct_nontrivial": len(nontriv),
		"rule":                chk.Rule,
		"samples":             tot.Samples,
		"exhaustive":          exhaustive,
		"branch_counters":     tot.Cov,
		"worker_processes":    shards,
	}
	if len(tot.Samples) == 0 {
		cov["samples"] = []any{"(no sample recorded)"}
	}
	if chk.Scenarios != nil {
		cov["states"] = len(states)
		cov["transitions"] = tot.Transitions
		cov["traces_validated_against_impl"] = tot.Executions
		cov["executions"] = tot.Executions
		cov["scans"] = tot.Scans
		cov["choice_points"] = tot.ChoicePoints
		cov["max_deviations_completed"] = tot.MaxDev
		cov["revisited_states_not_re_expanded"] = tot.Pruned
		cov["distinct_outcomes"] = tot.Outcomes
		cov["alphabet"] = chk.Alphabet
		if tot.Capped {
			cov["cap"] = fmt.Sprintf("internal deadline of %s s reached while exploring deviation bound %d; every bound up to %d was completed (max_deviations_completed)", deadline, tot.MaxDev+1, tot.MaxDev)
		}
	}
	if len(tot.Notes) > 0 {
		cov["notes"] = dedup(tot.Notes)
	}
	ev := map[string]any{
		"property_id": id,
		"tier":        tier,
		"seed":        seed,
		"level":       chk.Level,
		"coverage":    cov,
		"assumptions": chk.Assumptions,
		"wall_s":      wall,
		"violations":  violations,
		"known_findings_reproduced": knownSeen,
	}
	evDir := env("VERIF_EVIDENCE_DIR", filepath.Join(verifDir(), "evidence"))
	os.MkdirAll(evDir, 0o755)
	b, _ := json.MarshalIndent(ev, "", " ")
	if err := os.WriteFile(filepath.Join(evDir, id+".json"), b, 0o644); err != nil {
		fmt.Fprintf(os.Stderr, "HARNESS-ERROR writing evidence: %v\n", err)
		return 2
	}
	fmt.Printf("%s %s: evaluations=%d executions=%d scans=%d states=%d transitions=%d nontrivial=%d outcomes=%d maxdev=%d exhaustive=%v violations=%d known=%d wall=%.1fs\n",
		id, tier, tot.Evaluations, tot.Executions, tot.Scans, len(states), tot.Transitions, len(nontriv), tot.Outcomes, tot.MaxDev, exhaustive, violations, knownSeen, wall)
	for _, e := range herrs {
		fmt.Fprintf(os.Stderr, "HARNESS-ERROR %s\n", e)
	}
	if violations > 0 {
		// a violation found and replayed identically by a surviving shard stands even if another shard was lost
		return 1
	}
	if len(herrs) > 0 {
		return 2
	}
	return 0
}

func dedup(in []string) []string {
	seen := map[string]bool{}
	var out []string
	for _, s := range in {
		if !seen[s] {
			seen[s] = true
			out = append(out, s)
		}
	}
	return out
}

func tail(s string, n int) string {
	if len(s) > n {
		return s[len(s)-n:]
	}
	return s
}

func writeReplay(id, tier string, f *h.Found) string {
	sum := sha1.Sum([]byte(f.Sig))
	name := fmt.Sprintf("%s-%s.json", id, hex.EncodeToString(sum[:4]))
	path := filepath.Join(replayDir(), name)
	b, _ := json.MarshalIndent(map[string]any{"property": f.Prop, "tier": tier, "signature": f.Sig, "message": f.Msg, "scenario": f.Scenario,
		"choices": f.Choices, "deviations": f.Devs, "case": f.Case, "trace": f.Trace}, "", " ")
	os.WriteFile(path, b, 0o644)
	return path
}

// TestWorker explores one shard.
func TestWorker(t *testing.T) {
	if os.Getenv("VERIF_ROLE") != "worker" {
		t.Skip("worker role only")
	}
	id := os.Getenv("VERIF_PROP")
	tier := env("VERIF_TIER", "quick")
	var shard, shards int
	fmt.Sscanf(os.Getenv("VERIF_SHARD"), "%d/%d", &shard, &shards)
	if shards == 0 {
		shards = 1
	}
	chk := props.Get(id)
	if chk == nil {
		t.Fatalf("unknown property %q", id)
	}
	c := h.NewCollector(shard)
	// watchdog (real time, outside any bubble): one execution normally takes well under a second; if a
	// single execution is still in flight after VERIF_STALL_S (default 300) seconds the code under test
	// is spinning without blocking, which virtual time cannot detect. The stuck case is written out and
	// the worker exits with status 3.
	stall := 300
	if v, err := strconv.Atoi(os.Getenv("VERIF_STALL_S")); err == nil && v > 0 {
		stall = v
	}
	go func() {
		for {
			time.Sleep(5 * time.Second)
			// measured in CPU time of this (single-threaded) worker, not by the wall clock: a frozen or badly
			// overloaded machine must not look like spinning code
			since := h.InFlightSince.Load()
			if since != 0 && h.CPUNow()-h.InFlightCPU.Load() > int64(stall)*int64(time.Second) && h.InFlightSince.Load() == since {
				desc, _ := h.InFlightDesc.Load().(string)
				os.WriteFile(os.Getenv("VERIF_OUT")+".hang", []byte(desc), 0o644)
				os.Exit(3)
			}
		}
	}()
	if d, _ := strconv.Atoi(os.Getenv("VERIF_DEADLINE_S")); d > 0 {
		c.Deadline = time.Now().Add(time.Duration(d) * time.Second)
	}
	func() {
		defer func() {
			if r := recover(); r != nil {
				c.R.HarnessError = fmt.Sprintf("%v", r)
			}
		}()
		if chk.Grid != nil {
			chk.Grid(t, tier, shard, shards, c)
		}
		if chk.Scenarios != nil {
			// the deviation bound is iterated: the thorough tier first completes the quick tier's bound
			// and then deepens, so that a run stopped by its deadline still reports a completed bound
			hi := chk.Bound(tier)
			lo := hi
			if tier == "thorough" && chk.Bound("quick") < hi {
				lo = chk.Bound("quick")
			}
			if v, err := strconv.Atoi(os.Getenv("VERIF_BOUND")); err == nil {
				lo, hi = v, v
			}
			c.R.MaxDev = -1
			for bound := lo; bound <= hi && !c.R.Capped; bound++ {
				c.ResetStates()
				list := chk.Scenarios
				pre := false
				if chk.ShardByScenario && chk.ScenariosSharded != nil {
					list = func(tier string) []*h.Scenario { return chk.ScenariosSharded(tier, shard, shards) }
					pre = true
				}
				for i, s := range list(tier) {
					if only := os.Getenv("VERIF_SCENARIO"); only != "" && !strings.HasPrefix(s.Name, only) {
						continue
					}
					attach(chk, s)
					o := h.HOpts{Bound: bound, Shard: shard, Shards: shards, Prune: chk.Prune, Nontrivial: chk.Nontrivial, SampleMax: 2}
					if chk.ShardByScenario {
						if !pre && i%shards != shard {
							continue
						}
						o.Shard, o.Shards = 0, 1
					}
					h.ExploreScenario(t, s, o, c)
				}
				if !c.R.Capped {
					c.R.MaxDev = bound
				}
			}
			if c.R.MaxDev < 0 {
				c.R.MaxDev = 0
			}
			// determinism rule: every reported witness must replay identically, twice
			for i := range c.R.Found {
				f := &c.R.Found[i]
				if f.Choices == nil && f.Case != nil {
					continue
				}
				s := findScenario(chk, tier, f.Scenario)
				if s == nil {
					continue
				}
				for k := 0; k < 2; k++ {
					hh := h.ReplayScenario(t, s, f.Choices, 1<<30)
					if !reflect.DeepEqual(hh.Trace, f.Trace) {
						c.R.HarnessError = fmt.Sprintf("non-deterministic replay of %s in %s: traces differ", f.Sig, f.Scenario)
					}
				}
			}
		}
	}()
	if err := c.Write(os.Getenv("VERIF_OUT")); err != nil {
		t.Fatal(err)
	}
}

func findScenario(chk *props.Check, tier, name string) *h.Scenario {
	for _, s := range chk.Scenarios(tier) {
		if s.Name == name {
			attach(chk, s)
			return s
		}
	}
	return nil
}

// TestReplay re-executes a replay file and prints the trace and the violations it shows.
func TestReplay(t *testing.T) {
	if os.Getenv("VERIF_ROLE") != "replay" {
		t.Skip("replay role only")
	}
	b, err := os.ReadFile(os.Getenv("VERIF_REPLAY"))
	if err != nil {
		t.Fatal(err)
	}
	var r struct {
		Property string          `json:"property"`
		Tier     string          `json:"tier"`
		Scenario string          `json:"scenario"`
		Choices  []int           `json:"choices"`
		Case     json.RawMessage `json:"case"`
	}
	if err := json.Unmarshal(b, &r); err != nil {
		t.Fatal(err)
	}
	chk := props.Get(r.Property)
	if chk == nil {
		t.Fatalf("unknown property %s", r.Property)
	}
	if chk.ReplayCase != nil && len(r.Case) > 0 && string(r.Case) != "null" {
		for _, l := range chk.ReplayCase(t, r.Case) {
			fmt.Println(l)
		}
		return
	}
	s := findScenario(chk, r.Tier, r.Scenario)
	if s == nil {
		// a grid case without a dedicated replayer: the case description identifies the input; the
		// property's check re-evaluates it (grids are enumerated completely on every run)
		fmt.Printf("grid case of %s: %s\nre-run ./run.sh %s %s to re-evaluate the whole grid\n", r.Property, string(r.Case), r.Property, r.Tier)
		return
	}
	hh := h.ReplayScenario(t, s, r.Choices, 1<<30)
	for _, l := range hh.Trace {
		fmt.Println(l)
	}
	for _, v := range hh.Viol {
		fmt.Printf("VIOLATION property=%s signature=%s: %s\n", v.Prop, v.Sig, v.Msg)
	}
}

func attach(chk *props.Check, s *h.Scenario) {
	s.Monitors = chk.Monitors
	if chk.MonitorsFor != nil {
		s.Monitors = func() []h.Monitor { return chk.MonitorsFor(s) }
	}
}
