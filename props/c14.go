package props

import (
	"fmt"
	"testing"

	"github.com/atlassian/escalator/pkg/controller"
	"github.com/atlassian/escalator/pkg/metrics"
	v1 "k8s.io/api/core/v1"
	metav1 "k8s.io/apimachinery/pkg/apis/meta/v1"

	"verif/h"
	"verif/sim"
)

// ---------------------------------------------------------------------------------------------
// C14 — pods and nodes are attributed to node groups exactly as documented

const (
	c14Key   = "customer"
	c14Val   = "shared"
	c14Other = "other"
)

type c14Pod struct {
	Selector string // nil | empty | otherkey | keyother | keyval | keyvalextra
	Affinity string // kind, or "required"
	Terms    [][]c14Expr
	Owner    string // none | rs | ds | both
	Static   string // none | file | api
}

type c14Expr struct {
	Key    string
	Op     v1.NodeSelectorOperator
	Values []string
}

func (p c14Pod) build(name string) *v1.Pod {
	pod := &v1.Pod{ObjectMeta: metav1.ObjectMeta{Name: name, Namespace: "default"}}
	switch p.Selector {
	case "empty":
		pod.Spec.NodeSelector = map[string]string{}
	case "otherkey":
		pod.Spec.NodeSelector = map[string]string{c14Other: c14Val}
	case "keyother":
		pod.Spec.NodeSelector = map[string]string{c14Key: c14Other}
	case "keyval":
		pod.Spec.NodeSelector = map[string]string{c14Key: c14Val}
	case "keyvalextra":
		pod.Spec.NodeSelector = map[string]string{c14Key: c14Val, "zone": "a"}
	case "keyvalcase":
		pod.Spec.NodeSelector = map[string]string{c14Key: "Shared"}
	}
	switch p.Affinity {
	case "empty":
		pod.Spec.Affinity = &v1.Affinity{}
	case "na-empty":
		pod.Spec.Affinity = &v1.Affinity{NodeAffinity: &v1.NodeAffinity{}}
	case "preferred":
		pod.Spec.Affinity = &v1.Affinity{NodeAffinity: &v1.NodeAffinity{PreferredDuringSchedulingIgnoredDuringExecution: []v1.PreferredSchedulingTerm{{Weight: 1,
			Preference: v1.NodeSelectorTerm{MatchExpressions: []v1.NodeSelectorRequirement{{Key: c14Key, Operator: v1.NodeSelectorOpIn, Values: []string{c14Val}}}}}}}}
	case "fields":
		pod.Spec.Affinity = &v1.Affinity{NodeAffinity: &v1.NodeAffinity{RequiredDuringSchedulingIgnoredDuringExecution: &v1.NodeSelector{NodeSelectorTerms: []v1.NodeSelectorTerm{{
			MatchFields: []v1.NodeSelectorRequirement{{Key: c14Key, Operator: v1.NodeSelectorOpIn, Values: []string{c14Val}}}}}}}}
	case "podaffinity":
		pod.Spec.Affinity = &v1.Affinity{PodAffinity: &v1.PodAffinity{}}
	case "podantiaffinity":
		pod.Spec.Affinity = &v1.Affinity{PodAntiAffinity: &v1.PodAntiAffinity{RequiredDuringSchedulingIgnoredDuringExecution: []v1.PodAffinityTerm{{TopologyKey: "zone"}}}}
	case "required":
		sel := &v1.NodeSelector{}
		for _, t := range p.Terms {
			term := v1.NodeSelectorTerm{}
			for _, e := range t {
				term.MatchExpressions = append(term.MatchExpressions, v1.NodeSelectorRequirement{Key: e.Key, Operator: e.Op, Values: e.Values})
			}
			sel.NodeSelectorTerms = append(sel.NodeSelectorTerms, term)
		}
		pod.Spec.Affinity = &v1.Affinity{NodeAffinity: &v1.NodeAffinity{RequiredDuringSchedulingIgnoredDuringExecution: sel}}
	}
	switch p.Owner {
	case "rs":
		pod.OwnerReferences = []metav1.OwnerReference{{Kind: "ReplicaSet", Name: "r"}}
	case "ds":
		pod.OwnerReferences = []metav1.OwnerReference{{Kind: "DaemonSet", Name: "d"}}
	case "both":
		pod.OwnerReferences = []metav1.OwnerReference{{Kind: "ReplicaSet", Name: "r"}, {Kind: "DaemonSet", Name: "d"}}
	case "both-rev":
		pod.OwnerReferences = []metav1.OwnerReference{{Kind: "DaemonSet", Name: "d"}, {Kind: "ReplicaSet", Name: "r"}}
	}
	switch p.Static {
	case "file":
		pod.Annotations = map[string]string{"kubernetes.io/config.source": "file"}
	case "api":
		pod.Annotations = map[string]string{"kubernetes.io/config.source": "api"}
	}
	return pod
}

// oracleLabel: the predicate of the statement for a labelled group.
func (p c14Pod) oracleLabel() bool {
	if p.Owner == "ds" || p.Owner == "both" || p.Owner == "both-rev" {
		return false
	}
	if p.Selector == "keyval" || p.Selector == "keyvalextra" {
		return true
	}
	if p.Affinity == "required" {
		for _, t := range p.Terms {
			for _, e := range t {
				if e.Key == c14Key && e.Op == v1.NodeSelectorOpIn {
					for _, v := range e.Values {
						if v == c14Val {
							return true
						}
					}
				}
			}
		}
	}
	return false
}

// oracleDefault: 1 = counts, 0 = does not, -1 = the statement does not settle it (affinity
// sub-structures present but holding no rule).
func (p c14Pod) oracleDefault() int {
	if p.Owner == "ds" || p.Owner == "both" || p.Owner == "both-rev" || p.Static == "file" {
		return 0
	}
	if p.Selector != "nil" && p.Selector != "empty" {
		return 0
	}
	switch p.Affinity {
	case "nil", "empty":
		return 1
	case "na-empty", "podaffinity":
		return -1
	case "required":
		rules := 0
		for _, t := range p.Terms {
			rules += len(t)
		}
		if rules == 0 {
			return -1
		}
		return 0
	}
	return 0
}

func c14Exprs() []c14Expr {
	var out []c14Expr
	for _, k := range []string{c14Key, c14Other} {
		for _, op := range []v1.NodeSelectorOperator{v1.NodeSelectorOpIn, v1.NodeSelectorOpNotIn, v1.NodeSelectorOpExists, v1.NodeSelectorOpDoesNotExist, v1.NodeSelectorOpGt} {
			for _, vs := range [][]string{nil, {c14Val}, {c14Other}, {c14Other, c14Val}} {
				out = append(out, c14Expr{k, op, vs})
			}
		}
	}
	return out
}

func c14Affinities() []c14Pod {
	var out []c14Pod
	for _, k := range []string{"nil", "empty", "na-empty", "preferred", "fields", "podaffinity", "podantiaffinity"} {
		out = append(out, c14Pod{Affinity: k})
	}
	ex := c14Exprs()
	var small [][]c14Expr // terms with <= 1 expression
	small = append(small, nil)
	for _, e := range ex {
		small = append(small, []c14Expr{e})
	}
	var all [][]c14Expr // terms with <= 2 expressions
	all = append(all, small...)
	for _, a := range ex {
		for _, b := range ex {
			all = append(all, []c14Expr{a, b})
		}
	}
	out = append(out, c14Pod{Affinity: "required"}) // zero terms
	for _, t := range all {
		out = append(out, c14Pod{Affinity: "required", Terms: [][]c14Expr{t}})
	}
	for _, a := range small {
		for _, b := range small {
			out = append(out, c14Pod{Affinity: "required", Terms: [][]c14Expr{a, b}})
		}
	}
	return out
}

func c14Grid(t *testing.T, tier string, shard, shards int, c *h.Collector) {
	if shard == 0 {
		c14EndToEnd(t, c)
		c14SharedPods(t, c)
	}
	labelF := controller.NewPodAffinityFilterFunc(c14Key, c14Val)
	defF := controller.NewPodDefaultFilterFunc()
	nodeF := controller.NewNodeLabelFilterFunc(c14Key, c14Val)
	report := func(sig, msg string, d any) {
		c.Report(h.Found{Violation: h.Violation{Prop: "C14", Sig: sig, Msg: msg}, Scenario: "c14.grid", Case: d})
	}
	affs := c14Affinities()
	idx := 0
	w := sim.NewWorld()
	var expectLabel, expectDefault []string
	maybeDefault := map[string]bool{}
	var shapes []c14Pod
	var podNames []string
	for ai, a := range affs {
		if ai%shards != shard {
			continue
		}
		for _, selr := range []string{"nil", "empty", "otherkey", "keyother", "keyval", "keyvalextra", "keyvalcase"} {
			for _, own := range []string{"none", "rs", "ds", "both", "both-rev"} {
				for _, st := range []string{"none", "file", "api"} {
					idx++
					p := a
					p.Selector, p.Owner, p.Static = selr, own, st
					name := fmt.Sprintf("p%d-%d", ai, idx)
					pod := p.build(name)
					c.R.Evaluations++
					want := p.oracleLabel()
					if got := labelF(pod); got != want {
						report("C14/label-group-pod", fmt.Sprintf("pod %+v: counted=%v, statement says %v", p, got, want), p)
					}
					wd := p.oracleDefault()
					gd := defF(pod)
					if wd >= 0 && gd != (wd == 1) {
						report("C14/default-group-pod", fmt.Sprintf("pod %+v: counted=%v by the default group, statement says %v", p, gd, wd == 1), p)
					}
					if want {
						expectLabel = append(expectLabel, name)
					}
					if wd == 1 {
						expectDefault = append(expectDefault, name)
					}
					if wd < 0 {
						maybeDefault[name] = true
					}
					w.ViewPods = append(w.ViewPods, pod)
					shapes = append(shapes, p)
					podNames = append(podNames, name)
					c.Nontrivial(fmt.Sprintf("%d/%s/%s/%s", ai, selr, own, st))
					if len(c.R.Samples) < 2 && want && p.Affinity == "required" {
						c.R.Samples = append(c.R.Samples, p)
					}
				}
			}
		}
	}
	// node label maps
	nodeCases := []struct {
		labels map[string]string
		want   bool
	}{
		{nil, false}, {map[string]string{}, false}, {map[string]string{c14Key: c14Val}, true}, {map[string]string{c14Key: c14Other}, false},
		{map[string]string{c14Other: c14Val}, false}, {map[string]string{c14Key: c14Val, "zone": "a"}, true}, {map[string]string{c14Key: ""}, false},
		{map[string]string{c14Key: "Shared"}, false}, {map[string]string{c14Key: "SHARED"}, false}, {map[string]string{c14Key: c14Val + " "}, false},
		{map[string]string{"Customer": c14Val}, false}, {map[string]string{c14Key: c14Val + "x"}, false}, {map[string]string{c14Key: "share"}, false},
	}
	var expectNodes []string
	for i, nc := range nodeCases {
		n := &v1.Node{ObjectMeta: metav1.ObjectMeta{Name: fmt.Sprint("n", i), Labels: nc.labels}}
		c.R.Evaluations++
		if got := nodeF(n); got != nc.want {
			report("C14/node", fmt.Sprintf("node labels %v: member=%v, statement says %v", nc.labels, got, nc.want), nc.labels)
		}
		if nc.want {
			expectNodes = append(expectNodes, n.Name)
		}
		w.ViewNodes = append(w.ViewNodes, n)
		c.Nontrivial(fmt.Sprint("node/", i))
	}
	// a correctly labelled node that is being deleted (deletion timestamp set, held by a finalizer) is
	// still a node of the group
	{
		past := metav1.NewTime(metav1.Now().Add(-10 * 60 * 1e9))
		n := &v1.Node{ObjectMeta: metav1.ObjectMeta{Name: "n-terminating", Labels: map[string]string{c14Key: c14Val}, DeletionTimestamp: &past, Finalizers: []string{"example.com/hold"}}}
		c.R.Evaluations++
		if !nodeF(n) {
			report("C14/node", "a labelled node with a deletion timestamp is not a member", "terminating")
		}
		expectNodes = append(expectNodes, n.Name)
		w.ViewNodes = append(w.ViewNodes, n)
		c.Nontrivial("node/terminating")
	}
	// the same through the filtered listers
	opts := controller.NodeGroupOptions{Name: "shared", LabelKey: c14Key, LabelValue: c14Val}
	lg := controller.NewNodeGroupLister(sim.PodLister{W: w}, sim.NodeLister{W: w}, opts)
	dopts := controller.NodeGroupOptions{Name: controller.DefaultNodeGroup, LabelKey: c14Key, LabelValue: c14Val}
	ld := controller.NewDefaultNodeGroupLister(sim.PodLister{W: w}, sim.NodeLister{W: w}, dopts)
	names := func(ps []*v1.Pod) []string {
		var out []string
		for _, p := range ps {
			out = append(out, p.Name)
		}
		return out
	}
	gp, _ := lg.Pods.List()
	if fmt.Sprint(names(gp)) != fmt.Sprint(expectLabel) {
		report("C14/lister-label-pods", fmt.Sprintf("filtered pod lister returned %d pods, statement selects %d", len(gp), len(expectLabel)), nil)
	}
	dp, _ := ld.Pods.List()
	var dn []string
	for _, n := range names(dp) {
		if !maybeDefault[n] {
			dn = append(dn, n)
		}
	}
	if fmt.Sprint(dn) != fmt.Sprint(expectDefault) {
		report("C14/lister-default-pods", fmt.Sprintf("default pod lister returned %d settled pods, statement selects %d", len(dn), len(expectDefault)), nil)
	}
	// second scan: every pod was deleted and re-created under the same name with another shape (each
	// name now carries its neighbour's shape); attribution must follow the pod as listed now
	if len(shapes) > 1 {
		var exp2Label, exp2Default []string
		maybe2 := map[string]bool{}
		w.ViewPods = w.ViewPods[:0]
		for i, name := range podNames {
			p := shapes[(i+1)%len(shapes)]
			w.ViewPods = append(w.ViewPods, p.build(name))
			if p.oracleLabel() {
				exp2Label = append(exp2Label, name)
			}
			switch p.oracleDefault() {
			case 1:
				exp2Default = append(exp2Default, name)
			case -1:
				maybe2[name] = true
			}
		}
		c.R.Evaluations++
		gp2, _ := lg.Pods.List()
		if fmt.Sprint(names(gp2)) != fmt.Sprint(exp2Label) {
			report("C14/lister-label-pods-second-list", fmt.Sprintf("after the pods were re-created under the same names with other shapes the filtered pod lister returned %d pods, the statement selects %d", len(gp2), len(exp2Label)), nil)
		}
		dp2, _ := ld.Pods.List()
		var dn2 []string
		for _, n := range names(dp2) {
			if !maybe2[n] {
				dn2 = append(dn2, n)
			}
		}
		if fmt.Sprint(dn2) != fmt.Sprint(exp2Default) {
			report("C14/lister-default-pods-second-list", fmt.Sprintf("after the pods were re-created under the same names with other shapes the default pod lister returned %d settled pods, the statement selects %d", len(dn2), len(exp2Default)), nil)
		}
	}
	for _, l := range []*controller.NodeGroupLister{lg, ld} {
		ns, _ := l.Nodes.List()
		var nn []string
		for _, n := range ns {
			nn = append(nn, n.Name)
		}
		if fmt.Sprint(nn) != fmt.Sprint(expectNodes) {
			report("C14/lister-nodes", fmt.Sprintf("filtered node lister returned %v, statement selects %v", nn, expectNodes), nil)
		}
	}
}

// c14EndToEnd: attribution as a whole scan applies it. A controller over a labelled group and the
// default group; one pod per case, attributed by node selector, by required affinity or (default
// group) by having neither, and bound nowhere / to a node of its own group / to a node of the other
// group / to a node that no longer exists, Running or Pending. The request total each group reports
// must be that of the pods attributed to it, wherever they are bound.
func c14EndToEnd(t *testing.T, c *h.Collector) {
	ga, gd := StdGroup("a"), StdGroup(controller.DefaultNodeGroup)
	for _, g := range []*h.GroupSpec{&ga, &gd} {
		g.Opts.MinNodes, g.Opts.MaxNodes = 0, 10
		g.Opts.SlowNodeRemovalRate, g.Opts.FastNodeRemovalRate = 0, 0
		g.Opts.ScaleUpThresholdPercent = 100000
	}
	for _, order := range [][]h.GroupSpec{{ga, gd}, {gd, ga}} {
		for _, attr := range []string{"selector", "affinity", "default", "daemonset"} {
			for _, bind := range []string{"unbound", "own", "other-group", "gone"} {
				for _, phase := range []v1.PodPhase{v1.PodRunning, v1.PodPending} {
					order, attr, bind, phase := order, attr, bind, phase
					s := &h.Scenario{Name: "c14.e2e", Groups: order, Slots: 1, Quantum: Q,
						Init: func(hh *h.Hist) {
							nodeOf := map[string]string{}
							for i, as := range InitASGs(hh) {
								n := hh.W.AddNode(as, sim.NodeOpt{Age: 20 * Q})
								hh.W.AddNode(as, sim.NodeOpt{Age: 21 * Q})
								nodeOf[order[i].Opts.Name] = n.Name
							}
							own, other := "a", controller.DefaultNodeGroup
							var o sim.PodOpt
							switch attr {
							case "selector":
								o = podOn(ga, "", 300)
							case "affinity":
								o = affinityPod(ga, "", 300, false)
							case "daemonset":
								o = podOn(ga, "", 300)
								o.DaemonSet = true
							default:
								o = sim.PodOpt{CPUMilli: 300, MemBytes: 64 << 20}
								own, other = other, own
							}
							switch bind {
							case "own":
								o.Node = nodeOf[own]
							case "other-group":
								o.Node = nodeOf[other]
							case "gone":
								o.Node = "node-that-is-gone"
							}
							o.Phase = phase
							hh.W.AddPod(o)
						}}
					hh := RunCase(t, s)
					c.R.Evaluations++
					c.R.Scans += hh.Scans
					want := map[string]float64{"a": 0, controller.DefaultNodeGroup: 0}
					switch attr {
					case "selector", "affinity":
						want["a"] = 300
					case "default":
						want[controller.DefaultNodeGroup] = 300
					}
					for name, w := range want {
						if got := gaugeValue(metrics.NodeGroupCPURequest.WithLabelValues(name)); got != w {
							c.Report(h.Found{Violation: h.Violation{Prop: "C14", Sig: "C14/e2e-attribution",
								Msg: fmt.Sprintf("a 300m pod attributed by %s, bound %s, phase %s: group %s reports %v m of requests, the statement gives %v", attr, bind, phase, name, got, w)},
								Scenario: "c14.e2e", Case: map[string]any{"order": []string{order[0].Opts.Name, order[1].Opts.Name}, "attributed_by": attr, "bound": bind, "phase": string(phase)}, Trace: append([]string(nil), hh.Trace...)})
						}
					}
					c.Nontrivial(fmt.Sprint("e2e/", order[0].Opts.Name, attr, bind, phase))
				}
			}
		}
	}
}

// c14SharedPods: a pod that legitimately matches two labelled groups (one In expression listing both
// values; or a node selector for one group and a required In expression for the other) counts toward
// both, in whatever order the groups are configured.
func c14SharedPods(t *testing.T, c *h.Collector) {
	ga, gb := StdGroup("a"), StdGroup("b")
	for _, g := range []*h.GroupSpec{&ga, &gb} {
		g.Opts.MinNodes, g.Opts.MaxNodes = 0, 10
		g.Opts.SlowNodeRemovalRate, g.Opts.FastNodeRemovalRate = 0, 0
		g.Opts.ScaleUpThresholdPercent = 100000
	}
	for _, order := range [][]h.GroupSpec{{ga, gb}, {gb, ga}} {
		for _, shape := range []string{"in-both", "selector-a-affinity-b"} {
			order, shape := order, shape
			s := &h.Scenario{Name: "c14.shared", Groups: order, Slots: 2, Quantum: Q,
				Init: func(hh *h.Hist) {
					for _, as := range InitASGs(hh) {
						hh.W.AddNode(as, sim.NodeOpt{Age: 20 * Q})
					}
					o := sim.PodOpt{CPUMilli: 300, MemBytes: 64 << 20}
					in := func(vals ...string) *v1.Affinity {
						return &v1.Affinity{NodeAffinity: &v1.NodeAffinity{RequiredDuringSchedulingIgnoredDuringExecution: &v1.NodeSelector{NodeSelectorTerms: []v1.NodeSelectorTerm{
							{MatchExpressions: []v1.NodeSelectorRequirement{{Key: ga.Opts.LabelKey, Operator: v1.NodeSelectorOpIn, Values: vals}}}}}}}
					}
					if shape == "in-both" {
						o.Affinity = in(ga.Opts.LabelValue, gb.Opts.LabelValue)
					} else {
						o.Selector = sel(ga)
						o.Affinity = in(gb.Opts.LabelValue)
					}
					hh.W.AddPod(o)
				}}
			hh := RunCase(t, s)
			c.R.Evaluations++
			c.R.Scans += hh.Scans
			for _, name := range []string{"a", "b"} {
				if got := gaugeValue(metrics.NodeGroupCPURequest.WithLabelValues(name)); got != 300 {
					c.Report(h.Found{Violation: h.Violation{Prop: "C14", Sig: "C14/e2e-pod-matching-two-groups",
						Msg: fmt.Sprintf("a 300m pod matching groups a and b (%s), groups configured as %s,%s: group %s reports %v m of requests", shape, order[0].Opts.Name, order[1].Opts.Name, name, got)},
						Scenario: "c14.shared", Case: map[string]any{"order": []string{order[0].Opts.Name, order[1].Opts.Name}, "shape": shape}, Trace: append([]string(nil), hh.Trace...)})
				}
			}
			c.Nontrivial(fmt.Sprint("shared/", order[0].Opts.Name, shape))
		}
	}
}

func init() {
	register(&Check{
		ID:    "C14",
		Level: "exploration",
		Rule: "every pod shape in the universe: node selector {nil, empty, other key, key->other, key->value, key->value+extra} x affinity {nil, empty, node affinity without required terms, preferred only, match-fields only, pod affinity, pod anti-affinity, required with zero terms, one term of 0..2 expressions, two terms of 0..1 expressions; expressions over key {group key, other} x operator {In, NotIn, Exists, DoesNotExist, Gt} x values {[], [value], [other], [other,value]}} x owners {none, ReplicaSet, DaemonSet, both in either order} x static annotation {none, file, api}; 13 node label maps (including values differing only in case, by a trailing space, by a prefix / suffix); " +
			"through the real filter constructors and again through the filtered listers (two consecutive List calls, the pods re-created under the same names with other shapes in between), compared with the predicate of the statement; end to end: one scan of a controller over a labelled group and the default group (both orders) with one pod attributed by selector / affinity / neither / DaemonSet-owned, bound nowhere / to its own group's node / to the other group's node / to a node that is gone, Running or Pending, reading each group's request total; non-trivial = every shape and case; distinct by construction",
		Grid:        c14Grid,
		Assumptions: append([]string{"default group: shapes whose affinity sub-structures are present but hold no rule are accepted with either answer (the statement does not settle them)"}, commonAssumptions...),
	})
}
