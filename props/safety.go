package props

import (
	"fmt"
	"github.com/atlassian/escalator/pkg/cloudprovider"

	"verif/h"
	"verif/sim"
)

// Safety monitors that are pure predicates over (pre-scan view, journal, configuration). They are
// attached to the history scenarios of several checks.

// CordonSafety is the write half of C09: no write targets a node that is cordoned in the view.
type CordonSafety struct{}

func (CordonSafety) Key() string { return "" }
func (CordonSafety) AfterScan(ctx *h.ScanCtx) []h.Violation {
	var out []h.Violation
	for _, e := range ctx.Entries {
		if !e.Write() {
			continue
		}
		var g *h.GroupView
		name := ""
		switch e.Op {
		case sim.OpK8sUpdate, sim.OpK8sDelete:
			gg, n := ctx.GroupOfNode(e.Target)
			if n != nil && n.Spec.Unschedulable {
				g, name = gg, n.Name
			}
		case sim.OpTerminate:
			gg, n := ctx.NodeOfInstance(e.Target)
			if n != nil && n.Spec.Unschedulable {
				g, name = gg, n.Name
			}
		}
		if g == nil {
			continue // (a dry-mode group is not exempt: it writes nothing at all)
		}
		kind := "update"
		if e.Op == sim.OpK8sUpdate {
			if h.TaintAdded(e) {
				kind = "taint"
			} else if h.TaintRemoved(e) {
				kind = "untaint"
			}
		} else if e.Op == sim.OpK8sDelete {
			kind = "delete"
		} else {
			kind = "terminate"
		}
		out = append(out, h.Violation{Prop: "C09", Sig: "C09/write-on-cordoned/" + kind,
			Msg: fmt.Sprintf("scan %d: %s(%s) targets node %s which is cordoned in the scan's view", ctx.Scan, e.Op, e.Target, name)})
	}
	return out
}

// AnnotationSafety is the safety half of C10: a node with a non-empty no-delete annotation and no
// force-removal taint is never terminated or deleted.
type AnnotationSafety struct{}

func (AnnotationSafety) Key() string { return "" }
func (AnnotationSafety) AfterScan(ctx *h.ScanCtx) []h.Violation {
	var out []h.Violation
	// a protected node is never handed to the cloud for removal, so it cannot be the node a
	// not-in-group stop names (and it must not hold back the others by stopping the controller)
	if ne, ok := ctx.Res.Err.(*cloudprovider.NodeNotInNodeGroup); ok {
		if g, n := ctx.GroupOfNode(ne.NodeName); n != nil && g != nil {
			if _, f := h.HasTaint(n, h.ForceTaintKey); !f && n.Annotations[h.NoDeleteKey] != "" {
				out = append(out, h.Violation{Prop: "C10", Sig: "C10/protected-node-stops-the-controller",
					Msg: fmt.Sprintf("scan %d: the scan stopped with the not-in-group error for %s, which carries a non-empty no-delete annotation and is never a removal candidate", ctx.Scan, n.Name)})
			}
		}
	}
	for _, e := range ctx.Entries {
		var g *h.GroupView
		var name string
		switch e.Op {
		case sim.OpK8sDelete:
			gg, n := ctx.GroupOfNode(e.Target)
			if n != nil {
				if _, f := h.HasTaint(n, h.ForceTaintKey); !f && n.Annotations[h.NoDeleteKey] != "" {
					g, name = gg, n.Name
				}
			}
		case sim.OpTerminate:
			gg, n := ctx.NodeOfInstance(e.Target)
			if n != nil {
				if _, f := h.HasTaint(n, h.ForceTaintKey); !f && n.Annotations[h.NoDeleteKey] != "" {
					g, name = gg, n.Name
				}
			}
		}
		if g == nil || g.Dry {
			continue
		}
		kind := "terminate"
		if e.Op == sim.OpK8sDelete {
			kind = "delete"
		}
		out = append(out, h.Violation{Prop: "C10", Sig: "C10/removed-annotated/" + kind,
			Msg: fmt.Sprintf("scan %d: %s(%s) removes node %s which carries a non-empty no-delete annotation", ctx.Scan, e.Op, e.Target, name)})
	}
	return out
}

// TaintBound is the safety half of C03: successful taint-adding writes hit only nodes untainted in
// the view, and at most max(0, |U| - min) of them.
type TaintBound struct{}

func (TaintBound) Key() string { return "" }
func (TaintBound) AfterScan(ctx *h.ScanCtx) []h.Violation {
	var out []h.Violation
	for _, g := range ctx.Groups {
		if g.Dry {
			continue
		}
		inU := map[string]bool{}
		for _, n := range g.U {
			inU[n.Name] = true
		}
		added := 0
		for _, e := range ctx.Entries {
			if e.Err != "" || !h.TaintAdded(e) {
				continue
			}
			if gg, _ := ctx.GroupOfNode(e.Target); gg != g {
				continue
			}
			added++
			if !inU[e.Target] {
				out = append(out, h.Violation{Prop: "C03", Sig: "C03/tainted-non-untainted-node",
					Msg: fmt.Sprintf("scan %d: taint added to %s which is not an untainted uncordoned node of the view", ctx.Scan, e.Target)})
			}
		}
		allowed := len(g.U) - g.Min
		if allowed < 0 {
			allowed = 0
		}
		if added > 0 {
			ctx.H.Cov["c03.taint-scans"]++
			if added == allowed {
				ctx.H.Cov["c03.taint-at-bound"]++
			}
		}
		if added > allowed {
			sig := "C03/taints-exceed-untainted-minus-min"
			if len(g.U) < g.Min {
				sig = "C03/taint-below-min"
			}
			out = append(out, h.Violation{Prop: "C03", Sig: sig,
				Msg: fmt.Sprintf("scan %d group %s: %d taints added with %d untainted nodes and min_nodes %d", ctx.Scan, g.Name, added, len(g.U), g.Min)})
		}
	}
	return out
}

// CloudBound is the safety half of C04: no requested target exceeds min(max_nodes, cloud max).
type CloudBound struct{}

func (CloudBound) Key() string { return "" }
func (CloudBound) AfterScan(ctx *h.ScanCtx) []h.Violation {
	var out []h.Violation
	for _, e := range ctx.Entries {
		var g *h.GroupView
		var target int64
		switch e.Op {
		case sim.OpSetDesired:
			g = ctx.GroupOfASG(e.Target)
			target = e.Val
		case sim.OpCreateFleet:
			g = ctx.Group(e.Group)
			target = e.RealDesired + e.Val
		default:
			continue
		}
		if g == nil || g.Dry {
			continue
		}
		b := int64(g.Max)
		which := "max_nodes"
		if g.CloudMax < b {
			b = g.CloudMax
			which = "cloud-max"
		}
		if target > b {
			out = append(out, h.Violation{Prop: "C04", Sig: "C04/target>" + which,
				Msg: fmt.Sprintf("scan %d group %s: %s asks for target size %d, bound is min(max_nodes %d, cloud max %d)", ctx.Scan, g.Name, e.Op, target, g.Max, g.CloudMax)})
		} else {
			ctx.H.Cov["c04.requests-within-bound"]++
			if target == b {
				ctx.H.Cov["c04.requests-at-bound"]++
			}
		}
	}
	return out
}
