package props

import (
	"encoding/json"
	"fmt"
	"os"
	"os/exec"
	"path/filepath"
	"reflect"
	"sort"
	"strings"
	"testing"
	"time"

	"github.com/atlassian/escalator/pkg/cloudprovider"
	"github.com/atlassian/escalator/pkg/controller"

	"verif/h"
)

// ---------------------------------------------------------------------------------------------
// C16 — validation admits only safe configurations; YAML and JSON decode alike

type cfg map[string]any

func c16Baseline() cfg {
	return cfg{
		"name": "a", "label_key": "a", "label_value": "a", "cloud_provider_group_name": "a",
		"taint_lower_capacity_threshold_percent": 40, "taint_upper_capacity_threshold_percent": 70, "scale_up_threshold_percent": 100,
		"min_nodes": 1, "max_nodes": 5,
		"slow_node_removal_rate": 1, "fast_node_removal_rate": 2,
		"soft_delete_grace_period": "1m", "hard_delete_grace_period": "10m",
		"scale_up_cool_down_period": "2m",
		"taint_effect":              "", "max_node_age": "",
		"aws": cfg{"lifecycle": "", "launch_template_id": "", "launch_template_version": ""},
	}
}

// an option group: the keys it sets and all value tuples it sweeps
type c16Group struct {
	name   string
	keys   []string
	tuples [][]any
}

func cross(vals []any, n int) [][]any {
	out := [][]any{{}}
	for i := 0; i < n; i++ {
		var next [][]any
		for _, t := range out {
			for _, v := range vals {
				next = append(next, append(append([]any(nil), t...), v))
			}
		}
		out = next
	}
	return out
}

// namesTuples: name over {"", "a", "default"} (the special default group needs its label like any
// other) x label key, label value and cloud group over {"", "a"}.
func namesTuples() [][]any {
	var out [][]any
	for _, name := range []any{"", "a", "default"} {
		for _, rest := range cross([]any{"", "a"}, 3) {
			out = append(out, append([]any{name}, rest...))
		}
	}
	return out
}

func c16Groups() []c16Group {
	one := func(vals ...any) [][]any {
		var out [][]any
		for _, v := range vals {
			out = append(out, []any{v})
		}
		return out
	}
	durs := []any{"", "abc", "0", "-1m", "1m", "10m", "1h"}
	return []c16Group{
		{"thresholds", []string{"taint_lower_capacity_threshold_percent", "taint_upper_capacity_threshold_percent", "scale_up_threshold_percent"}, cross([]any{-1, 0, 1, 40, 70, 100, 150}, 3)},
		{"bounds", []string{"min_nodes", "max_nodes"}, cross([]any{-1, 0, 1, 5}, 2)},
		{"rates", []string{"slow_node_removal_rate", "fast_node_removal_rate"}, cross([]any{-3, -2, -1, 0, 1, 2, 5}, 2)},
		{"grace", []string{"soft_delete_grace_period", "hard_delete_grace_period"}, cross(durs, 2)},
		{"cooldown", []string{"scale_up_cool_down_period"}, one("", "abc", "0s", "-1m", "2m")},
		{"effect", []string{"taint_effect"}, one("", "NoSchedule", "NoExecute", "PreferNoSchedule", "Bogus", "noschedule")},
		{"lifecycle", []string{"aws.lifecycle"}, one("", "on-demand", "spot", "Spot", "reserved")},
		{"launchtemplate", []string{"aws.launch_template_id", "aws.launch_template_version"}, [][]any{{"", ""}, {"lt-1a2b3c4d", "1"}, {"lt-1a2b3c4d", ""}}},
		{"maxage", []string{"max_node_age"}, one("", "0", "12h", "abc")},
		{"names", []string{"name", "label_key", "label_value", "cloud_provider_group_name"}, namesTuples()},
	}
}

func (c cfg) clone() cfg {
	out := cfg{}
	for k, v := range c {
		if m, ok := v.(cfg); ok {
			out[k] = m.clone()
		} else {
			out[k] = v
		}
	}
	return out
}

func (c cfg) set(key string, v any) {
	if strings.HasPrefix(key, "aws.") {
		c["aws"].(cfg)[strings.TrimPrefix(key, "aws.")] = v
		return
	}
	c[key] = v
}

func (c cfg) get(key string) any {
	if strings.HasPrefix(key, "aws.") {
		return c["aws"].(cfg)[strings.TrimPrefix(key, "aws.")]
	}
	return c[key]
}

// ---- three independent renderings

func sortedCfgKeys(c cfg) []string {
	var ks []string
	for k := range c {
		ks = append(ks, k)
	}
	sort.Strings(ks)
	return ks
}

func renderJSON(c cfg) string {
	b, _ := json.Marshal(map[string]any{"node_groups": []any{c}})
	return string(b)
}

func yamlScalar(v any) string {
	switch x := v.(type) {
	case string:
		return `"` + strings.ReplaceAll(strings.ReplaceAll(x, `\`, `\\`), `"`, `\"`) + `"`
	case []string:
		var qs []string
		for _, s := range x {
			qs = append(qs, yamlScalar(s))
		}
		return "[" + strings.Join(qs, ", ") + "]"
	default:
		return fmt.Sprint(x)
	}
}

func renderYAMLBlock(c cfg) string {
	var b strings.Builder
	b.WriteString("node_groups:\n")
	first := true
	for _, k := range sortedCfgKeys(c) {
		prefix := "    "
		if first {
			prefix = "  - "
			first = false
		}
		if m, ok := c[k].(cfg); ok {
			b.WriteString(prefix + k + ":\n")
			for _, kk := range sortedCfgKeys(m) {
				b.WriteString("        " + kk + ": " + yamlScalar(m[kk]) + "\n")
			}
			continue
		}
		b.WriteString(prefix + k + ": " + yamlScalar(c[k]) + "\n")
	}
	return b.String()
}

func renderYAMLFlow(c cfg) string {
	var parts []string
	ks := sortedCfgKeys(c)
	for i := len(ks) - 1; i >= 0; i-- { // a different key order on purpose
		k := ks[i]
		if m, ok := c[k].(cfg); ok {
			var sub []string
			for _, kk := range sortedCfgKeys(m) {
				sub = append(sub, kk+": "+yamlScalar(m[kk]))
			}
			parts = append(parts, k+": {"+strings.Join(sub, ", ")+"}")
			continue
		}
		parts = append(parts, k+": "+yamlScalar(c[k]))
	}
	return "---\nnode_groups: [{" + strings.Join(parts, ", ") + "}]\n"
}

func decode(s string) ([]controller.NodeGroupOptions, error) {
	return controller.UnmarshalNodeGroupOptions(strings.NewReader(s))
}

// ---- the invariants of the statement, from the configuration's own values

func posDur(v any) (time.Duration, bool) {
	s, _ := v.(string)
	if s == "" {
		return 0, false
	}
	d, err := time.ParseDuration(s)
	return d, err == nil && d > 0
}

func c16Broken(c cfg) string {
	str := func(k string) string { s, _ := c.get(k).(string); return s }
	num := func(k string) int { n, _ := c.get(k).(int); return n }
	for _, k := range []string{"name", "label_key", "label_value", "cloud_provider_group_name"} {
		if str(k) == "" {
			return k + "-empty"
		}
	}
	lo, up, su := num("taint_lower_capacity_threshold_percent"), num("taint_upper_capacity_threshold_percent"), num("scale_up_threshold_percent")
	if !(0 < lo && lo < up && up < su) {
		return "thresholds"
	}
	slow, fast := num("slow_node_removal_rate"), num("fast_node_removal_rate")
	if slow < 0 {
		return "slow<0"
	}
	if slow > fast {
		return "slow>fast"
	}
	soft, ok1 := posDur(c.get("soft_delete_grace_period"))
	hard, ok2 := posDur(c.get("hard_delete_grace_period"))
	if !ok1 || !ok2 || !(soft < hard) {
		return "grace"
	}
	if _, ok := posDur(c.get("scale_up_cool_down_period")); !ok {
		return "cooldown"
	}
	min, max := num("min_nodes"), num("max_nodes")
	if !((min == 0 && max == 0) || (0 <= min && min < max)) {
		return "bounds"
	}
	switch str("taint_effect") {
	case "", "NoSchedule", "NoExecute", "PreferNoSchedule":
	default:
		return "effect"
	}
	switch str("aws.lifecycle") {
	case "", "on-demand", "spot":
	default:
		return "lifecycle"
	}
	if s := str("max_node_age"); s != "" {
		if _, err := time.ParseDuration(s); err != nil {
			return "max_node_age"
		}
	}
	return ""
}

func c16Eval(c *h.Collector, cf cfg, devs []string) {
	c.R.Evaluations++
	report := func(sig, msg string) {
		c.Report(h.Found{Violation: h.Violation{Prop: "C16", Sig: sig, Msg: msg}, Scenario: "c16.grid", Case: map[string]any{"config": cf, "groups_off_baseline": devs}})
	}
	js, yb, yf := renderJSON(cf), renderYAMLBlock(cf), renderYAMLFlow(cf)
	oj, ej := decode(js)
	ob, eb := decode(yb)
	of, ef := decode(yf)
	if ej != nil || eb != nil || ef != nil {
		report("C16/decode-error", fmt.Sprintf("decode errors json=%v yaml-block=%v yaml-flow=%v", ej, eb, ef))
		return
	}
	if len(oj) != 1 || !reflect.DeepEqual(oj, ob) || !reflect.DeepEqual(oj, of) {
		report("C16/yaml-json-differ", fmt.Sprintf("the same configuration decodes differently: json=%+v yaml-block=%+v yaml-flow=%+v", oj, ob, of))
		return
	}
	problems := controller.ValidateNodeGroup(oj[0])
	broken := c16Broken(cf)
	if len(problems) == 0 {
		c.R.Cov["c16.accepted"]++
		if broken != "" {
			report("C16/accepted/"+broken, fmt.Sprintf("validation accepts a configuration that violates the %q invariant: %v", broken, cf))
		}
	} else {
		c.R.Cov["c16.rejected"]++
		if broken == "" {
			c.R.Cov["c16.rejected-although-invariants-hold"]++
		}
	}
	c.Nontrivial(fmt.Sprint(devs, js))
	if len(c.R.Samples) < 2 && len(devs) == 2 {
		c.R.Samples = append(c.R.Samples, map[string]any{"yaml": yb, "accepted": len(problems) == 0, "broken_invariant": broken})
	}
}

func c16Grid(t *testing.T, tier string, shard, shards int, c *h.Collector) {
	groups := c16Groups()
	k := 2
	if tier == "thorough" {
		k = 3
	}
	idx := 0
	var rec func(from int, cf cfg, devs []string)
	rec = func(from int, cf cfg, devs []string) {
		idx++
		if idx%shards == shard {
			c16Eval(c, cf, devs)
		}
		if len(devs) == k {
			return
		}
		for gi := from; gi < len(groups); gi++ {
			g := groups[gi]
			for _, tup := range g.tuples {
				same := true
				for i, key := range g.keys {
					if cf.get(key) != tup[i] {
						same = false
					}
				}
				if same {
					continue
				}
				n := cf.clone()
				for i, key := range g.keys {
					n.set(key, tup[i])
				}
				rec(gi+1, n, append(append([]string(nil), devs...), g.name))
			}
		}
	}
	rec(0, c16Baseline(), nil)
	if shard == 0 {
		c16DocumentedKeys(c)
		c16StartupGate(c)
		c16PerGroupDecoding(c)
	}
}

// c16PerGroupDecoding: every group of a multi-group file decodes to exactly what it decodes to in a
// file of its own — whatever the groups listed before it set and whatever it omits itself (JSON and
// YAML, every order of a fully populated group, a group with the required keys only, and a group
// with a shorter override list).
func c16PerGroupDecoding(c *h.Collector) {
	full := c16Baseline()
	full.set("name", "full")
	for k, v := range map[string]any{"dry_mode": true, "scale_on_starve": true, "taint_effect": "NoExecute", "max_node_age": "12h"} {
		full[k] = v
	}
	full["aws"] = cfg{"lifecycle": "spot", "launch_template_id": "lt-0a1b2c", "launch_template_version": "3", "resource_tagging": true,
		"instance_type_overrides": []string{"m5.large", "m5.xlarge"}, "fleet_instance_ready_timeout": "2m"}
	minimal := cfg{}
	for k, v := range c16Baseline() {
		switch k {
		case "taint_effect", "max_node_age", "aws":
		default:
			minimal[k] = v
		}
	}
	minimal["name"] = "minimal"
	other := c16Baseline()
	other.set("name", "other")
	other["aws"] = cfg{"lifecycle": "on-demand", "launch_template_id": "", "launch_template_version": "", "instance_type_overrides": []string{"c5.large"}}
	all := []cfg{full, minimal, other}
	render := func(format string, gs []cfg) string {
		if format == "json" {
			var arr []any
			for _, g := range gs {
				arr = append(arr, g)
			}
			b, _ := json.Marshal(map[string]any{"node_groups": arr})
			return string(b)
		}
		body := "node_groups:\n"
		for _, g := range gs {
			body += strings.TrimPrefix(renderYAMLBlock(g), "node_groups:\n")
		}
		return body
	}
	// a file well beyond 4 KiB (sixteen fully specified groups): every group is decoded, in both formats
	{
		var many []cfg
		for i := 0; i < 16; i++ {
			g := full.clone()
			g.set("name", fmt.Sprintf("group-%02d", i))
			g.set("min_nodes", i+1)
			g.set("max_nodes", i+10)
			many = append(many, g)
		}
		for _, format := range []string{"json", "yaml"} {
			body := render(format, many)
			c.R.Evaluations++
			c.Nontrivial("per-group/large/" + format)
			o, err := decode(body)
			if err != nil || len(o) != len(many) {
				c.Report(h.Found{Violation: h.Violation{Prop: "C16", Sig: "C16/large-file-not-decoded-completely", Msg: fmt.Sprintf("a %s file of %d bytes with %d groups decodes to %d groups (error %v)", format, len(body), len(many), len(o), err)}, Scenario: "c16.per-group", Case: format})
				continue
			}
			for i, g := range many {
				one, err := decode(render(format, []cfg{g}))
				if err != nil || len(one) != 1 || !reflect.DeepEqual(o[i], one[0]) {
					c.Report(h.Found{Violation: h.Violation{Prop: "C16", Sig: "C16/group-decodes-differently-next-to-others", Msg: fmt.Sprintf("%s file with %d groups: group %d decodes to %+v, alone to %+v (%v)", format, len(many), i, o[i], one, err)}, Scenario: "c16.per-group", Case: format})
					break
				}
			}
		}
	}
	for _, format := range []string{"json", "yaml"} {
		alone := map[string]controller.NodeGroupOptions{}
		for _, g := range all {
			o, err := decode(render(format, []cfg{g}))
			if err != nil || len(o) != 1 {
				c.Report(h.Found{Violation: h.Violation{Prop: "C16", Sig: "C16/decode-error", Msg: fmt.Sprintf("single-group %s file of %v does not decode: %v", format, g["name"], err)}, Scenario: "c16.per-group", Case: g})
				return
			}
			alone[g["name"].(string)] = o[0]
		}
		for _, order := range perms(len(all)) {
			for n := 2; n <= len(all); n++ {
				var gs []cfg
				var names []string
				for _, i := range order[:n] {
					gs = append(gs, all[i])
					names = append(names, all[i]["name"].(string))
				}
				c.R.Evaluations++
				c.Nontrivial(fmt.Sprint("per-group/", format, names))
				o, err := decode(render(format, gs))
				if err != nil || len(o) != n {
					c.Report(h.Found{Violation: h.Violation{Prop: "C16", Sig: "C16/decode-error", Msg: fmt.Sprintf("%s file with groups %v does not decode to %d groups: %v", format, names, n, err)}, Scenario: "c16.per-group", Case: names})
					continue
				}
				for i, name := range names {
					if !reflect.DeepEqual(o[i], alone[name]) {
						c.Report(h.Found{Violation: h.Violation{Prop: "C16", Sig: "C16/group-decodes-differently-next-to-others",
							Msg: fmt.Sprintf("%s file with groups %v: group %s decodes to %+v, in a file of its own to %+v", format, names, name, o[i], alone[name])}, Scenario: "c16.per-group", Case: map[string]any{"format": format, "groups": names}})
					}
				}
			}
		}
	}
}

// c16StartupGate drives the real start-up gate in cmd/main.go (through the build-tagged probe
// cmd/verif_gate_test.go) over multi-group configuration files: escalator must refuse to start iff
// at least one group breaks an invariant, wherever that group sits in the file, in YAML and JSON.
func c16StartupGate(c *h.Collector) {
	dir, err := os.MkdirTemp("", "verif-gate-")
	if err != nil {
		c.R.Notes = append(c.R.Notes, "start-up gate skipped: "+err.Error())
		return
	}
	defer os.RemoveAll(dir)
	valid := func(i int) cfg {
		b := c16Baseline()
		b.set("name", fmt.Sprintf("g%d", i))
		return b
	}
	invalids := map[string]func(cfg){
		"name-empty":     func(b cfg) { b.set("name", "") },
		"lower-eq-upper": func(b cfg) { b.set("taint_lower_capacity_threshold_percent", 70) },
		"upper-ge-up":    func(b cfg) { b.set("taint_upper_capacity_threshold_percent", 100) },
		"slow-gt-fast":   func(b cfg) { b.set("slow_node_removal_rate", 5) },
		"slow-negative":  func(b cfg) { b.set("slow_node_removal_rate", -1); b.set("fast_node_removal_rate", 0) },
		"soft-ge-hard":   func(b cfg) { b.set("soft_delete_grace_period", "10m") },
		"no-cooldown":    func(b cfg) { b.set("scale_up_cool_down_period", "") },
		"min-ge-max":     func(b cfg) { b.set("min_nodes", 5) },
		"bad-effect":     func(b cfg) { b.set("taint_effect", "Bogus") },
		"bad-lifecycle":  func(b cfg) { b.set("aws.lifecycle", "Spot") },
		"bad-max-age":    func(b cfg) { b.set("max_node_age", "abc") },
	}
	var inames []string
	for k := range invalids {
		inames = append(inames, k)
	}
	sort.Strings(inames)
	expect := map[string]bool{}
	n := 0
	write := func(groups []cfg, anyInvalid bool, tag string) {
		for _, enc := range []string{"json", "yaml"} {
			n++
			name := fmt.Sprintf("case-%03d-%s-%s.cfg", n, tag, enc)
			var body string
			if enc == "json" {
				var gs []any
				for _, g := range groups {
					gs = append(gs, g)
				}
				b, _ := json.Marshal(map[string]any{"node_groups": gs})
				body = string(b)
			} else {
				body = "node_groups:\n"
				for _, g := range groups {
					one := renderYAMLBlock(g)
					body += strings.TrimPrefix(one, "node_groups:\n")
				}
			}
			os.WriteFile(filepath.Join(dir, name), []byte(body), 0o644)
			expect[name] = anyInvalid
		}
	}
	for k := 1; k <= 3; k++ {
		var gs []cfg
		for i := 0; i < k; i++ {
			gs = append(gs, valid(i))
		}
		write(gs, false, fmt.Sprintf("valid%d", k))
	}
	for _, in := range inames {
		for size := 1; size <= 3; size++ {
			for pos := 0; pos < size; pos++ {
				var gs []cfg
				for i := 0; i < size; i++ {
					g := valid(i)
					if i == pos {
						invalids[in](g)
					}
					gs = append(gs, g)
				}
				write(gs, true, fmt.Sprintf("%s-at%d-of%d", in, pos, size))
			}
		}
	}
	// the option mapping of setupCloudProvider, compared with the harness's restatement of it
	mp := valid(0)
	mp.set("aws.lifecycle", "spot")
	mp.set("aws.launch_template_id", "lt-123")
	mp.set("aws.launch_template_version", "7")
	mp["aws"].(cfg)["fleet_instance_ready_timeout"] = "90s"
	mp["aws"].(cfg)["instance_type_overrides"] = []string{"t2.large", "t3.large"}
	mp["aws"].(cfg)["resource_tagging"] = true
	b, _ := json.Marshal(map[string]any{"node_groups": []any{mp, valid(1)}})
	os.WriteFile(filepath.Join(dir, "map.cfg"), b, 0o644)
	expect["map.cfg"] = false

	args := []string{"test", "-tags", "verif", "-vet=off", "-count=1", "-v", "-run", "^TestVerifStartupGate$"}
	if ov := os.Getenv("VERIF_OVERLAY"); ov != "" {
		args = append(args, "-overlay", ov)
	}
	args = append(args, "./cmd")
	cmd := exec.Command(env("VERIF_GO", "go1.26.8"), args...)
	cmd.Dir = "/repo"
	cmd.Env = append(os.Environ(), "VERIF_GATE_DIR="+dir)
	out, err := cmd.CombinedOutput()
	seen := 0
	for _, line := range strings.Split(string(out), "\n") {
		if strings.HasPrefix(line, "VERIF-GATE ") {
			var r struct {
				File    string `json:"file"`
				Refused bool   `json:"refused"`
				Groups  int    `json:"groups"`
				Msg     string `json:"msg"`
			}
			if json.Unmarshal([]byte(strings.TrimPrefix(line, "VERIF-GATE ")), &r) != nil {
				continue
			}
			seen++
			c.R.Evaluations++
			c.Nontrivial("gate/" + r.File)
			want, ok := expect[r.File]
			if !ok {
				continue
			}
			if r.Refused != want {
				sig := "C16/startup-gate/invalid-group-admitted"
				if !want {
					sig = "C16/startup-gate/valid-file-refused"
				}
				c.Report(h.Found{Violation: h.Violation{Prop: "C16", Sig: sig, Msg: fmt.Sprintf("configuration file %s: start-up refused=%v (%s), expected refused=%v", r.File, r.Refused, r.Msg, want)}, Scenario: "c16.gate", Case: r.File})
			} else if want {
				c.R.Cov["c16.gate-refused-as-expected"]++
			}
		}
		if strings.HasPrefix(line, "VERIF-MAP ") {
			var got []cloudprovider.NodeGroupConfig
			if json.Unmarshal([]byte(strings.TrimPrefix(line, "VERIF-MAP ")), &got) != nil {
				continue
			}
			opts, derr := decode(string(b))
			if derr != nil {
				continue
			}
			var specs []h.GroupSpec
			for _, o := range opts {
				specs = append(specs, h.GroupSpec{Opts: o})
			}
			want := h.ProviderConfigs(specs, 0)
			for i := range want {
				want[i].AWSConfig.FleetInstanceReadyTimeout = opts[i].AWS.FleetInstanceReadyTimeoutDuration()
			}
			c.R.Evaluations++
			if !reflect.DeepEqual(got, want) {
				c.Report(h.Found{Violation: h.Violation{Prop: "C16", Sig: "C16/option-mapping-differs", Msg: fmt.Sprintf("setupCloudProvider maps the options to %+v, the harness's restatement to %+v", got, want)}, Scenario: "c16.gate", Case: "map.cfg"})
			} else {
				c.R.Cov["c16.option-mapping-agrees"]++
			}
		}
	}
	if seen == 0 {
		c.R.HarnessError = fmt.Sprintf("start-up gate probe produced no result (err %v): %s", err, tailStr(string(out), 1500))
	}
}

func env(k, def string) string {
	if v := os.Getenv(k); v != "" {
		return v
	}
	return def
}

func tailStr(s string, n int) string {
	if len(s) > n {
		return s[len(s)-n:]
	}
	return s
}

// c16DocumentedKeys reads the example in docs/configuration/nodegroup.md and checks that every
// documented key, set to the documented (non-zero) value, changes the decoded options.
func c16DocumentedKeys(c *h.Collector) {
	b, err := os.ReadFile("/repo/docs/configuration/nodegroup.md")
	if err != nil {
		c.R.Notes = append(c.R.Notes, "docs/configuration/nodegroup.md not readable: documented-key clause skipped")
		return
	}
	text := string(b)
	i := strings.Index(text, "```yaml")
	j := strings.Index(text[i+7:], "```")
	if i < 0 || j < 0 {
		c.R.Notes = append(c.R.Notes, "no yaml example in nodegroup.md: documented-key clause skipped")
		return
	}
	type kv struct{ key, val string }
	var keys []kv
	inAWS := false
	for _, line := range strings.Split(text[i+7:i+7+j], "\n") {
		trim := strings.TrimSpace(strings.TrimPrefix(strings.TrimSpace(line), "- "))
		if trim == "" || trim == "node_groups:" {
			continue
		}
		parts := strings.SplitN(trim, ":", 2)
		if len(parts) != 2 {
			continue
		}
		k, v := strings.TrimSpace(parts[0]), strings.TrimSpace(parts[1])
		if k == "aws" {
			inAWS = true
			continue
		}
		indent := len(line) - len(strings.TrimLeft(line, " "))
		if inAWS && indent >= 8 {
			k = "aws." + k
		} else {
			inAWS = false
		}
		keys = append(keys, kv{k, v})
	}
	render := func(skip string, override map[string]string) string {
		var b strings.Builder
		b.WriteString("node_groups:\n  - zzz_unused: 0\n")
		aws := false
		for _, e := range keys {
			if e.key == skip {
				continue
			}
			v := e.val
			if o, ok := override[e.key]; ok {
				v = o
			}
			if strings.HasPrefix(e.key, "aws.") {
				if !aws {
					b.WriteString("    aws:\n")
					aws = true
				}
				b.WriteString("        " + strings.TrimPrefix(e.key, "aws.") + ": " + v + "\n")
			} else {
				b.WriteString("    " + e.key + ": " + v + "\n")
			}
		}
		return b.String()
	}
	for _, e := range keys {
		c.R.Evaluations++
		ov := map[string]string{}
		if e.val == "false" {
			ov[e.key] = "true" // the documented value is the zero value: use the other one
		}
		with, err1 := decode(render("", ov))
		without, err2 := decode(render(e.key, ov))
		c.Nontrivial("dockey/" + e.key)
		if err1 != nil || err2 != nil {
			c.Report(h.Found{Violation: h.Violation{Prop: "C16", Sig: "C16/documented-example-does-not-decode", Msg: fmt.Sprintf("documented example with/without %s: %v / %v", e.key, err1, err2)}, Scenario: "c16.dockeys", Case: e.key})
			continue
		}
		if reflect.DeepEqual(with, without) {
			c.Report(h.Found{Violation: h.Violation{Prop: "C16", Sig: "C16/documented-key-ignored/" + e.key, Msg: fmt.Sprintf("documented key %s: %s does not change the decoded options (no field honours it)", e.key, e.val)}, Scenario: "c16.dockeys", Case: e.key})
		} else {
			c.R.Cov["c16.documented-keys-honoured"]++
		}
	}
}

func init() {
	register(&Check{
		ID:    "C16",
		Level: "exploration",
		Rule: "every configuration in which at most 2 (quick) / 3 (thorough) of ten option groups deviate from a valid baseline, each group swept exhaustively (thresholds {-1,0,1,40,70,100,150}^3, bounds {-1,0,1,5}^2, rates {-3..5}^2, grace periods 7^2 strings, cool-down 5, effect 6, lifecycle 5, launch template 3, max_node_age 4, four name strings 2^4); each rendered as JSON, block YAML and flow YAML, decoded by the real decoder and validated by the real validator; " +
			"plus every key of the documented example (docs/configuration/nodegroup.md, read at check time); plus the real start-up gate of cmd/main.go over one- to three-group files with an invalid group (eleven kinds) at every position, in YAML and JSON, and the option-to-provider mapping of setupCloudProvider compared with the harness's restatement; non-trivial = every configuration; distinct by its rendering",
		Grid:        c16Grid,
		Assumptions: append([]string{"valid max_node_age = empty or parseable as a Go duration (the validator's own message)"}, commonAssumptions...),
	})
}
