package props

import (
	"fmt"
	"testing"
	"testing/synctest"
	"time"

	"github.com/atlassian/escalator/pkg/cloudprovider"

	"verif/h"
	"verif/ref"
	"verif/sim"
)

// ---------------------------------------------------------------------------------------------
// C18 — fleet scale-up never leaks instances, whatever step fails

type c18Case struct {
	Size       int64
	ReadyPoll  int  // instances become ready on this poll (1..4); -1 never (deadline)
	AttachFail int  // k-th AttachInstances call fails (0 = none)
	TermFail   int  // j-th TerminateInstances call fails (0 = none)
	TermFail2  int  // a second failing TerminateInstances call (0 = none)
	StatusFail int  // k-th status poll fails (0 = none)
	PriorFails int  // consecutive failed provisionings before this one (exit after the third)
	HalfNever  bool // every other instance never becomes ready (the others are running from ReadyPoll on)
	Short      int  // the CreateFleet answer is partly fulfilled: this many instances fewer, plus an error entry
	Split      int  // the CreateFleet answer lists the instances in this many entries of the same instance type (0 = 1)
}

func c18Run(p c18Case) (entries []sim.Entry, err error, exit bool, pan any, setup error) {
	cfg := cloudprovider.AWSNodeGroupConfig{FleetInstanceReadyTimeout: 4500 * time.Millisecond, LaunchTemplateID: "lt-1", LaunchTemplateVersion: "1"}
	env, e := newProvEnv(sim.ASG{Name: "asg-g1", Min: 0, Max: 10000}, 2, cfg)
	if e != nil {
		return nil, nil, false, nil, e
	}
	env.W.ReadyFromPoll = p.ReadyPoll
	env.W.ReadyHalfNever = p.HalfNever
	if p.Split > 0 {
		env.W.FleetSplit = p.Split
	}
	env.W.FleetShort = p.Short
	// earlier failed provisionings (never ready) to exercise the consecutive-failure counter
	for i := 0; i < p.PriorFails; i++ {
		env.W.ReadyFromPoll = -1
		callProtected(func() error { return env.NG.IncreaseSize(1) })
		env.W.ReadyFromPoll = p.ReadyPoll
	}
	d := newOccDecider()
	if p.AttachFail > 0 {
		d.failAt(sim.OpAttach, p.AttachFail)
	}
	if p.TermFail > 0 {
		d.failAt(sim.OpTermIns, p.TermFail)
	}
	if p.TermFail2 > 0 {
		d.failAt(sim.OpTermIns, p.TermFail2)
	}
	if p.StatusFail > 0 {
		d.failAt(sim.OpStatus, p.StatusFail)
	}
	env.W.D = d
	mark := len(env.W.J)
	err, exit, pan = callProtected(func() error { return env.NG.IncreaseSize(p.Size) })
	return env.W.J[mark:], err, exit, pan, nil
}

func c18Check(c *h.Collector, p c18Case) {
	c.R.Evaluations++
	entries, err, exit, pan, setup := c18Run(p)
	report := func(sig, msg string) {
		c.Report(h.Found{Violation: h.Violation{Prop: "C18", Sig: sig, Msg: fmt.Sprintf("%+v: %s", p, msg)}, Scenario: "c18.fleet", Case: p})
	}
	if setup != nil {
		report("C18/setup", setup.Error())
		return
	}
	c.Nontrivial(fmt.Sprintf("%+v", p))
	if pan != nil {
		report("C18/panic", fmt.Sprint(pan))
		return
	}
	sigs, acquired, attached, submitted := fleetAlgebra(entries)
	for _, s := range sigs {
		report(s[0], s[1])
	}
	wantAcquired := p.Size
	if p.Short > 0 && int64(p.Short) < p.Size {
		wantAcquired -= int64(p.Short) // the simulated answer was partly fulfilled
	}
	if int64(len(acquired)) != wantAcquired {
		report("C18/acquired-count", fmt.Sprintf("fleet returned %d instances", len(acquired)))
	}
	halfNeverHits := false
	if p.HalfNever {
		for id := range acquired {
			if sim.NeverReadyUnderHalf(id) {
				halfNeverHits = true
			}
		}
	}
	failure := p.ReadyPoll < 0 || p.ReadyPoll > 4 || attachWillFail(p) || halfNeverHits
	if failure {
		c.R.Cov["c18.failure-cases"]++
		if exit {
			c.R.Cov["c18.exit-requested-after-third-consecutive-cleanup"]++
		} else if err == nil {
			report("C18/failure-not-reported", fmt.Sprintf("the scale-up failed (attached %d of %d) but IncreaseSize returned nil", len(attached), len(acquired)))
		}
		if exit && p.PriorFails < 2 {
			report("C18/premature-exit", "process exit requested before the third consecutive failed provisioning")
		}
	} else {
		c.R.Cov["c18.success-cases"]++
		if err != nil || exit {
			report("C18/error-on-success", fmt.Sprintf("every step succeeded but IncreaseSize returned %v (exit=%v)", err, exit))
		}
		if len(submitted) != 0 {
			report("C18/terminated-on-success", fmt.Sprintf("%d instances submitted for termination although everything was attached", len(submitted)))
		}
	}
	if len(c.R.Samples) < 2 && failure {
		c.R.Samples = append(c.R.Samples, map[string]any{"case": p, "acquired": len(acquired), "attached": len(attached), "submitted_for_termination": len(submitted), "error": fmt.Sprint(err)})
	}
}

func attachWillFail(p c18Case) bool {
	calls := int((p.Size + 19) / 20)
	return p.AttachFail > 0 && p.AttachFail <= calls
}

func c18Grid(t *testing.T, tier string, shard, shards int, c *h.Collector) {
	sizes := []int64{1, 19, 20, 21, 40, 41, 45, 1000, 1001, 2500}
	synctest.Test(t, func(t *testing.T) {
		idx := 0
		run := func(p c18Case) {
			idx++
			if idx%shards == shard {
				c18Check(c, p)
			}
		}
		for _, n := range sizes {
			for _, rp := range []int{1, 2, 3, 4, -1} {
				run(c18Case{Size: n, ReadyPoll: rp})
				for tf := 1; tf <= 3; tf++ {
					run(c18Case{Size: n, ReadyPoll: rp, TermFail: tf})
				}
			}
			for sf := 1; sf <= 3; sf++ {
				run(c18Case{Size: n, ReadyPoll: 1, StatusFail: sf})
			}
			// two of the hand-back calls fail (whatever is done about them, no call carries more than 1000 ids)
			if n > 1000 {
				for _, pair := range [][2]int{{1, 2}, {1, 3}, {2, 3}} {
					run(c18Case{Size: n, ReadyPoll: -1, TermFail: pair[0], TermFail2: pair[1]})
					run(c18Case{Size: n, ReadyPoll: 1, AttachFail: 1, TermFail: pair[0], TermFail2: pair[1]})
				}
			}
			// a partly fulfilled answer (fewer instances than asked for, plus an error entry)
			if n > 1 {
				for _, short := range []int{1, int(n) / 2} {
					if short < 1 {
						continue
					}
					run(c18Case{Size: n, ReadyPoll: 1, Short: short})
					run(c18Case{Size: n, ReadyPoll: -1, Short: short})
					run(c18Case{Size: n, ReadyPoll: 1, Short: short, AttachFail: 1})
				}
			}
			// the answer split over several entries (capacity from several subnets / pools)
			for _, split := range []int{2, 3} {
				run(c18Case{Size: n, ReadyPoll: 1, Split: split})
				run(c18Case{Size: n, ReadyPoll: -1, Split: split})
				run(c18Case{Size: n, ReadyPoll: 1, Split: split, AttachFail: 1})
			}
			for _, rp := range []int{1, 3} {
				run(c18Case{Size: n, ReadyPoll: rp, HalfNever: true})
				run(c18Case{Size: n, ReadyPoll: rp, HalfNever: true, TermFail: 1})
			}
			calls := int((n + 19) / 20)
			step := 1
			if tier != "thorough" && calls > 12 {
				step = calls / 12
			}
			for k := 1; k <= calls; k += step {
				for tf := 0; tf <= 3; tf++ {
					run(c18Case{Size: n, ReadyPoll: 1, AttachFail: k, TermFail: tf})
				}
			}
			run(c18Case{Size: n, ReadyPoll: 1, AttachFail: calls})
			for prior := 1; prior <= 2; prior++ {
				run(c18Case{Size: n, ReadyPoll: -1, PriorFails: prior})
				run(c18Case{Size: n, ReadyPoll: 1, AttachFail: 1, PriorFails: prior})
				run(c18Case{Size: n, ReadyPoll: 1, PriorFails: prior})
			}
		}
	})
}

// ---- controller level: no cool-down lock for capacity that did not arrive

// NoLockAfterFailedFleet: after a scan whose fleet scale-up failed, the next fault-free scan whose
// reference decision is a scale-up must try again.
type NoLockAfterFailedFleet struct{ failedAt map[string]int }

func (m *NoLockAfterFailedFleet) Key() string { return fmt.Sprint(m.failedAt) }
func (m *NoLockAfterFailedFleet) AfterScan(ctx *h.ScanCtx) []h.Violation {
	var out []h.Violation
	if m.failedAt == nil || ctx.Fresh {
		m.failedAt = map[string]int{}
	}
	for _, g := range ctx.Groups {
		o := observe(ctx, g)
		tried := len(o.incr) > 0
		var fleetEntries []sim.Entry
		for _, e := range ctx.Entries {
			if e.Op == sim.OpCreateFleet || e.Op == sim.OpAttach || e.Op == sim.OpTermIns {
				fleetEntries = append(fleetEntries, e)
			}
		}
		sigs, acquired, attached, _ := fleetAlgebra(fleetEntries)
		for _, s := range sigs {
			out = append(out, h.Violation{Prop: "C18", Sig: s[0], Msg: fmt.Sprintf("scan %d: %s", ctx.Scan, s[1])})
		}
		if prev, ok := m.failedAt[g.Name]; ok && prev == ctx.Scan-1 && !ctx.Faulted && ctx.Res.Err == nil && !ctx.Res.Exit && ctx.Res.Panic == nil {
			d := ref.Decide(g, ctx.Start)
			if d.Class == "up" && bound(g)-g.CloudDesired > 0 {
				ctx.H.Cov["c18.scan-after-failed-fleet"]++
				if !tried {
					out = append(out, h.Violation{Prop: "C18", Sig: "C18/locked-after-failed-scale-up",
						Msg: fmt.Sprintf("scan %d group %s: the previous scan's fleet scale-up failed, utilisation still demands capacity, but no request was made (a cool-down lock was taken for capacity that did not arrive)", ctx.Scan, g.Name)})
				}
			}
		}
		delete(m.failedAt, g.Name)
		if len(acquired) > 0 && len(attached) < len(acquired) && !ctx.Res.Exit {
			m.failedAt[g.Name] = ctx.Scan
		}
	}
	return out
}

func C18Scenarios(tier string) []*h.Scenario {
	var out []*h.Scenario
	for _, ready := range []int{1, -1, -2} {
		g := StdGroup("g1")
		g.Opts.AWS.LaunchTemplateID, g.Opts.AWS.LaunchTemplateVersion = "lt-1", "1"
		g.Opts.MaxNodes = 60
		g.ASG.Max = 60
		rd := ready
		// -2: never ready, and the group still holds a tainted node that is untainted before the fleet
		// request is made (a failed fleet request takes no cool-down lock there either)
		withTainted := ready == -2
		if withTainted {
			rd = -1
		}
		s := &h.Scenario{Name: fmt.Sprintf("c18.controller.ready%d", ready), Groups: []h.GroupSpec{g}, Slots: 5, Quantum: Q, MaxEventsPerSlot: 1,
			FaultOps:     map[string]bool{sim.OpAttach: true, sim.OpCreateFleet: true, sim.OpStatus: true, sim.OpTermIns: true},
			FleetTimeout: 4500 * time.Millisecond,
			Init: func(hh *h.Hist) {
				a := InitASGs(hh)[0]
				hh.W.ReadyFromPoll = rd
				for i := 0; i < 2; i++ {
					n := hh.W.AddNode(a, sim.NodeOpt{Age: time.Duration(10+i) * Q})
					hh.W.AddPod(podOn(g, n.Name, 1000))
				}
				if withTainted {
					hh.W.AddNode(a, sim.NodeOpt{Age: 30 * Q, TaintAge: dp(0)})
				}
				// 3000 % utilisation: the need is 84 nodes, clamped to the 58 of headroom -> three attach batches
				hh.W.AddPod(podOn(g, "", 58000))
			},
			Events: func(hh *h.Hist, slot int) []h.Event {
				return []h.Event{
					{Label: "instances-become-ready-on-poll-1", Apply: func(hh *h.Hist) { hh.W.ReadyFromPoll = 1 }},
					{Label: "instances-never-ready", Apply: func(hh *h.Hist) { hh.W.ReadyFromPoll = -1 }},
					evRestart(),
				}
			},
		}
		out = append(out, s)
	}
	return out
}

func init() {
	register(&Check{
		ID:    "C18",
		Level: "fault_enumeration",
		Rule: "fleet sizes {1,19,20,21,40,41,45,1000,1001,2500} x {ready on poll 1..4, never ready, every other instance never ready} x {no fault, k-th AttachInstances fails for every k (every k thorough; 12 evenly spaced k for the sizes >= 1000 quick), j-th TerminateInstances fails j=1..3, k-th status poll fails} x 0..2 earlier consecutive failed provisionings, on the real provider; " +
			"plus controller histories in fleet mode (deviation-bounded DFS, faults at CreateFleet/status/attach/terminate) for the no-lock-after-failure clause; non-trivial = every fault case; distinct by its parameters",
		Grid:      c18Grid,
		Scenarios: C18Scenarios,
		Monitors:  func() []h.Monitor { return []h.Monitor{&NoLockAfterFailedFleet{}} },
		Bound: func(tier string) int {
			if tier == "thorough" {
				return 3
			}
			return 2
		},
		Nontrivial:  func(hh *h.Hist) []string { return []string{fmt.Sprint(hh.Trace)} },
		Assumptions: append([]string{"the TerminateInstances 1000-id limit is recorded for the oracle, not enforced by the simulator", "a process exit requested after the third consecutive orphan clean-up is the documented behaviour and is recorded, not flagged"}, commonAssumptions...),
		Alphabet:    []string{"fault grid on the provider", "fail at CreateFleet / DescribeInstanceStatus / AttachInstances / TerminateInstances", "instances ready / never ready", "restart"},
	})
}
