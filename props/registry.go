package props

import (
	"testing"

	"verif/h"
)

// Check is the definition of one property's check.
type Check struct {
	ID    string
	Level string // evidence level: model_checking | exploration | fault_enumeration
	Rule  string
	// History part (Explorer H).
	Scenarios  func(tier string) []*h.Scenario
	Monitors   func() []h.Monitor
	// MonitorsFor, when set, builds the monitors with access to the scenario (shared baselines).
	MonitorsFor func(s *h.Scenario) []h.Monitor
	Bound      func(tier string) int
	Prune      bool
	// ShardByScenario gives whole scenarios to workers (many small scenarios) instead of splitting
	// each scenario's level-1 alternatives.
	ShardByScenario bool
	// ScenariosSharded, when set together with ShardByScenario, builds only the scenarios of one shard.
	ScenariosSharded func(tier string, shard, shards int) []*h.Scenario
	Nontrivial func(hh *h.Hist) []string
	// Grid part (Explorer G): enumerates its shard of the grid and feeds the collector.
	Grid func(t *testing.T, tier string, shard, shards int, c *h.Collector)
	// ReplayCase re-executes one grid case from a replay file and returns printable lines.
	ReplayCase func(t *testing.T, raw []byte) []string
	Assumptions []string
	Alphabet    []string
}

var registry = map[string]*Check{}

func register(c *Check) { registry[c.ID] = c }

// Get returns the check for a property id.
func Get(id string) *Check { return registry[id] }

// IDs lists the registered property ids.
func IDs() []string {
	var out []string
	for k := range registry {
		out = append(out, k)
	}
	return out
}

var commonAssumptions = []string{
	"Kubernetes and AWS are replaced by the deterministic simulators in /verif/sim (rules listed in DESIGN.md section 2.3); every answer on success is well-formed",
	"code under test is /repo's working tree built with -tags verif by go1.26.8; time is the synctest virtual clock",
	"informer wiring, leader election, cmd/main.go flag handling and aws.Builder session set-up are outside the boundary",
}

func init() {
	register(&Check{
		ID:    "C01",
		Level: "model_checking",
		Rule: "deviation-bounded DFS over histories of 9 scans on the real controller; a case is non-trivial when a scan removed a node or held a node exactly one conjunct away from removal " +
			"(age = soft, soft < age with pods, unreadable taint, cordoned/annotated and expired, untainted and empty, force-tainted with pods); distinct = (slot, class, node, pods, age)",
		Scenarios: C01Scenarios,
		Monitors: func() []h.Monitor {
			return []h.Monitor{RemovalSafety{}, &NearMiss{Seen: map[string]struct{}{}}}
		},
		Bound: func(tier string) int {
			if tier == "thorough" {
				return 3
			}
			return 2
		},
		Prune:      true,
		Nontrivial: seenKeys,
		Assumptions: commonAssumptions,
		Alphabet:    []string{"pod-start/finish(i)", "ds(i)", "cordon/uncordon(i)", "pod-start-by-affinity(i)", "ext-taint(i, 11 values)", "force-taint(i)", "annotate(i)", "burst", "clear-pending", "restart", "stale-view", "skip-settle", "refresh-fails-once", "register-node", "fail/kill at k8s get/update/delete, asg terminate/setdesired/describe"},
	})
}
