package props

import (
	"fmt"
	"github.com/atlassian/escalator/pkg/controller"
	"reflect"
	"sort"
	"testing"
	"testing/synctest"
	"time"

	"github.com/atlassian/escalator/pkg/k8s"
	v1 "k8s.io/api/core/v1"
	metav1 "k8s.io/apimachinery/pkg/apis/meta/v1"

	"verif/h"
	"verif/sim"
)

// ---------------------------------------------------------------------------------------------
// C15 — taint writes are precise and never restart a grace period

func foreignTaints(n *v1.Node) []string {
	var out []string
	for _, t := range n.Spec.Taints {
		if t.Key != h.TaintKey {
			out = append(out, fmt.Sprintf("%s=%s:%s@%v", t.Key, t.Value, t.Effect, t.TimeAdded))
		}
	}
	sort.Strings(out)
	return out
}

func escTaints(n *v1.Node) []v1.Taint {
	var out []v1.Taint
	for _, t := range n.Spec.Taints {
		if t.Key == h.TaintKey {
			out = append(out, t)
		}
	}
	return out
}

// checkUpdate is the C15 oracle for one node update: the object sent equals the object in the API
// store except for exactly one escalator taint added (current Unix time, configured effect) or
// removed; it returns "" or (signature, message).
func checkUpdate(e sim.Entry, effect v1.TaintEffect) (string, string) {
	if e.Before == nil || e.Sent == nil {
		return "", ""
	}
	a, b := e.Before.DeepCopy(), e.Sent.DeepCopy()
	fa, fb := foreignTaints(a), foreignTaints(b)
	ea, eb := escTaints(a), escTaints(b)
	a.Spec.Taints, b.Spec.Taints = nil, nil
	if !reflect.DeepEqual(a, b) {
		return "C15/other-fields-changed", fmt.Sprintf("update of %s changes fields other than taints", e.Target)
	}
	if !reflect.DeepEqual(fa, fb) {
		return "C15/foreign-taints-changed", fmt.Sprintf("update of %s: other taints were %v, sent %v", e.Target, fa, fb)
	}
	switch {
	case len(ea) == 0 && len(eb) == 1:
		want := effect
		if want == "" {
			want = v1.TaintEffectNoSchedule
		}
		if eb[0].Effect != want {
			return "C15/wrong-effect", fmt.Sprintf("taint added to %s with effect %q, configured %q", e.Target, eb[0].Effect, effect)
		}
		if eb[0].Value != fmt.Sprint(e.T.Unix()) {
			return "C15/wrong-taint-time", fmt.Sprintf("taint added to %s with value %q at Unix time %d", e.Target, eb[0].Value, e.T.Unix())
		}
	case len(ea) == 1 && len(eb) == 0:
		// removed exactly the escalator taint
	case len(ea) == len(eb):
		for i := range ea {
			if ea[i] != eb[i] {
				return "C15/restamped", fmt.Sprintf("update of %s changes the existing escalator taint from %v to %v", e.Target, ea[i], eb[i])
			}
		}
	default:
		return "C15/escalator-taint-count", fmt.Sprintf("update of %s: %d escalator taints before, %d sent", e.Target, len(ea), len(eb))
	}
	return "", ""
}

// PreciseWrites applies checkUpdate to every node update of every scan.
type PreciseWrites struct{}

func (PreciseWrites) Key() string { return "" }
func (PreciseWrites) AfterScan(ctx *h.ScanCtx) []h.Violation {
	var out []h.Violation
	for _, e := range ctx.Entries {
		if e.Op != sim.OpK8sUpdate {
			continue
		}
		if e.Err == "conflict" {
			// written from a read that another client has since overtaken; the API refused it and nothing changed
			ctx.H.Cov["c15.updates-refused-as-conflict"]++
			continue
		}
		var eff v1.TaintEffect
		if g, _ := ctx.GroupOfNode(e.Target); g != nil {
			eff = g.Spec.Opts.TaintEffect
		} else if e.Before != nil {
			for _, g := range ctx.Groups {
				if e.Before.Labels[g.Spec.Opts.LabelKey] == g.Spec.Opts.LabelValue {
					eff = g.Spec.Opts.TaintEffect
				}
			}
		}
		if sig, msg := checkUpdate(e, eff); sig != "" {
			out = append(out, h.Violation{Prop: "C15", Sig: sig, Msg: fmt.Sprintf("scan %d: %s", ctx.Scan, msg)})
		}
		switch {
		case h.TaintAdded(e):
			ctx.H.Cov["c15.taint-writes"]++
			if _, n := ctx.GroupOfNode(e.Target); n != nil {
				if _, stale := h.HasTaint(n, h.TaintKey); stale {
					ctx.H.Cov["c15.retaint-of-node-tainted-in-view"]++
				}
			}
		case h.TaintRemoved(e):
			ctx.H.Cov["c15.untaint-writes"]++
		}
		// a node offered for tainting that already carries the taint in the API store (stale view)
	}
	// re-stamping in two steps: the escalator taint removed from a node and put back on it within one
	// scan restarts its grace period just like an overwrite would
	removedIn := map[string]bool{}
	for _, e := range ctx.Entries {
		if e.Op != sim.OpK8sUpdate || e.Err != "" {
			continue
		}
		if h.TaintRemoved(e) {
			removedIn[e.Target] = true
		}
		if h.TaintAdded(e) && removedIn[e.Target] {
			out = append(out, h.Violation{Prop: "C15", Sig: "C15/restamped/removed-and-re-added-in-one-scan",
				Msg: fmt.Sprintf("scan %d: the escalator taint of %s was removed and added again within the scan: its grace period restarts", ctx.Scan, e.Target)})
		}
	}
	for i, e := range ctx.Entries {
		if e.Op == sim.OpK8sGet && e.Before != nil {
			if _, has := h.HasTaint(e.Before, h.TaintKey); has {
				if _, n := ctx.GroupOfNode(e.Target); n != nil {
					if _, inView := h.HasTaint(n, h.TaintKey); !inView {
						ctx.H.Cov["c15.already-tainted-node-offered-for-tainting"]++
						_ = i
					}
				}
			}
		}
	}
	return out
}

func C15Scenarios(tier string) []*h.Scenario {
	var out []*h.Scenario
	for _, eff := range []v1.TaintEffect{"", v1.TaintEffectNoExecute, v1.TaintEffectPreferNoSchedule} {
		g := StdGroup("g1")
		g.Opts.TaintEffect = eff
		g.Opts.MinNodes = 0
		name := "c15.effect-" + string(eff)
		if eff == "" {
			name = "c15.effect-default"
		}
		// a failing DescribeAutoScalingGroups makes RunOnce sleep 5 s before scanning: taint values
		// must carry the time of tainting, not of the scan's start
		s := &h.Scenario{Name: name, Groups: []h.GroupSpec{g}, Slots: 8, Quantum: Q, MaxEventsPerSlot: 2, FaultOps: map[string]bool{sim.OpDescribeASG: true}}
		if eff == "" {
			// failing node reads / writes as well (a retried or repeated write must not stack taints)
			s.FaultOps = map[string]bool{sim.OpDescribeASG: true, sim.OpK8sGet: true, sim.OpK8sUpdate: true}
		}
		s.Init = func(hh *h.Hist) {
			a := InitASGs(hh)[0]
			f1 := v1.Taint{Key: "dedicated", Value: "batch", Effect: v1.TaintEffectNoSchedule}
			f2 := v1.Taint{Key: "node.kubernetes.io/unreachable", Effect: v1.TaintEffectNoExecute}
			f3 := v1.Taint{Key: "atlassian.com/escalator-like", Value: "1", Effect: v1.TaintEffectPreferNoSchedule}
			f1b := v1.Taint{Key: "dedicated", Value: "batch", Effect: v1.TaintEffectNoExecute} // same key, other effect
			n1 := hh.W.AddNode(a, sim.NodeOpt{Age: 20 * Q, Foreign: []v1.Taint{f1, f2, f1b, f3}})
			n1.Labels["extra"] = "label"
			n1.Annotations = map[string]string{"note": "keep me"}
			hh.W.AddPod(podOn(g, n1.Name, 100))
			hh.W.AddNode(a, sim.NodeOpt{Age: 21 * Q, Foreign: []v1.Taint{f2}})
			n3 := hh.W.AddNode(a, sim.NodeOpt{Age: 22 * Q, TaintAge: dp(0), Foreign: []v1.Taint{f1}})
			// the escalator taint sits between two foreign taints
			n3.Spec.Taints = append(n3.Spec.Taints, f3)
			hh.W.AddNode(a, sim.NodeOpt{Age: 23 * Q})
		}
		s.Events = func(hh *h.Hist, slot int) []h.Event {
			var ev []h.Event
			for i, n := range groupNodes(hh, g, 4) {
				ev = append(ev, evExtTaint(n.Name, "now-1q"), evExtUntaint(n.Name))
				if i < 2 || i == 2 {
					ev = append(ev, evConcurrentWrite(n.Name))
				}
				if i >= 2 {
					// an escalator taint put on by hand with a value that is not a time: never rewritten
					ev = append(ev, evExtTaint(n.Name, "abc"))
				}
			}
			ev = append(ev, evStale(), evBurst(g, 3, 1000), evClearAllPods(g), evRestart(), evSkipSettle())
			return ev
		}
		out = append(out, s)
	}
	// two groups with different taint effects under one controller, both scaling down (either order;
	// the first one optionally in dry mode): every taint carries its own group's effect
	for _, order := range [][2]v1.TaintEffect{{v1.TaintEffectNoExecute, ""}, {"", v1.TaintEffectNoExecute}, {v1.TaintEffectPreferNoSchedule, v1.TaintEffectNoExecute}} {
		for _, dryFirst := range []bool{false, true} {
			g1, g2 := StdGroup("g1"), StdGroup("g2")
			if order[1] == v1.TaintEffectNoExecute {
				// the special group named default honours its configured effect like any other
				g2 = StdGroup(controller.DefaultNodeGroup)
			}
			g1.Opts.TaintEffect, g2.Opts.TaintEffect = order[0], order[1]
			g1.Opts.MinNodes, g2.Opts.MinNodes = 0, 0
			g1.Opts.DryMode = dryFirst
			groups := []h.GroupSpec{g1, g2}
			s := &h.Scenario{Name: fmt.Sprintf("c15.two-effects.%s-%s.dry%v", order[0], order[1], dryFirst), Groups: groups, Slots: 4, Quantum: Q, MaxEventsPerSlot: 1}
			s.Init = func(hh *h.Hist) {
				for i, a := range InitASGs(hh) {
					n := hh.W.AddNode(a, sim.NodeOpt{Age: 20 * Q})
					hh.W.AddPod(podOn(groups[i], n.Name, 50))
					hh.W.AddNode(a, sim.NodeOpt{Age: 21 * Q})
					hh.W.AddNode(a, sim.NodeOpt{Age: 22 * Q})
				}
			}
			s.Events = func(hh *h.Hist, slot int) []h.Event {
				return []h.Event{evBurst(g1, 3, 1000), evBurst(g2, 3, 1000), evClearAllPods(g1), evClearAllPods(g2), evRestart()}
			}
			out = append(out, s)
		}
	}
	return out
}

// c15Grid drives the two taint helpers directly over every small node shape.
func c15Grid(t *testing.T, tier string, shard, shards int, c *h.Collector) {
	foreign := []v1.Taint{
		{Key: "dedicated", Value: "batch", Effect: v1.TaintEffectNoSchedule},
		{Key: "node.kubernetes.io/unreachable", Effect: v1.TaintEffectNoExecute},
		{Key: "atlassian.com/escalator-force", Value: "x", Effect: v1.TaintEffectPreferNoSchedule},
		// same key as the first one with another effect: legal (the API server requires key + effect to be unique)
		{Key: "dedicated", Value: "batch", Effect: v1.TaintEffectNoExecute},
	}
	var orders [][]int
	var rec func(cur []int, used int)
	rec = func(cur []int, used int) {
		orders = append(orders, append([]int(nil), cur...))
		for i := 0; i < len(foreign); i++ {
			if used&(1<<i) == 0 {
				rec(append(cur, i), used|1<<i)
			}
		}
	}
	rec(nil, 0)
	effects := []v1.TaintEffect{"", v1.TaintEffectNoSchedule, v1.TaintEffectNoExecute, v1.TaintEffectPreferNoSchedule}
	idx := 0
	synctest.Test(t, func(t *testing.T) {
		time.Sleep(1234 * time.Second)
		for _, ord := range orders {
			for pos := -1; pos <= len(ord); pos++ { // position of an existing escalator taint, -1 = none
				for _, eff := range effects {
					for _, unsched := range []bool{false, true} {
						for _, meta := range []bool{false, true} {
							for _, op := range []string{"add", "delete"} {
								idx++
								if idx%shards != shard {
									continue
								}
								w := sim.NewWorld()
								w.Phase = "group"
								n := &v1.Node{ObjectMeta: metav1.ObjectMeta{Name: "n1", Labels: map[string]string{"customer": "g1"}}}
								if meta {
									n.Labels["extra"] = "l"
									n.Annotations = map[string]string{"a": "b", h.NoDeleteKey: "why"}
									n.Spec.ProviderID = "aws:///az/i-1"
								}
								n.Spec.Unschedulable = unsched
								for i, f := range ord {
									if i == pos {
										n.Spec.Taints = append(n.Spec.Taints, v1.Taint{Key: h.TaintKey, Value: "946684800", Effect: v1.TaintEffectNoSchedule})
									}
									n.Spec.Taints = append(n.Spec.Taints, foreign[f])
								}
								if pos == len(ord) {
									n.Spec.Taints = append(n.Spec.Taints, v1.Taint{Key: h.TaintKey, Value: "946684800", Effect: v1.TaintEffectNoSchedule})
								}
								w.Nodes = append(w.Nodes, n)
								stale := n.DeepCopy()
								cl := w.Client()
								var err error
								if op == "add" {
									_, err = k8s.AddToBeRemovedTaint(stale, cl, eff)
								} else {
									_, err = k8s.DeleteToBeRemovedTaint(stale, cl)
								}
								c.R.Evaluations++
								desc := map[string]any{"foreign_order": ord, "escalator_pos": pos, "effect": string(eff), "unschedulable": unsched, "meta": meta, "op": op}
								report := func(sig, msg string) {
									c.Report(h.Found{Violation: h.Violation{Prop: "C15", Sig: sig, Msg: msg}, Scenario: "c15.grid", Case: desc})
								}
								if err != nil {
									report("C15/helper-error", fmt.Sprintf("%s returned %v on a healthy API", op, err))
								}
								updates := 0
								for _, e := range w.J {
									if e.Op == sim.OpK8sUpdate {
										updates++
										if sig, msg := checkUpdate(e, eff); sig != "" {
											report(sig, msg)
										}
									}
								}
								has := pos >= 0
								wantUpdates := 0
								if (op == "add" && !has) || (op == "delete" && has) {
									wantUpdates = 1
								}
								if updates != wantUpdates {
									report("C15/update-count", fmt.Sprintf("%s on a node with escalator taint present=%v issued %d updates", op, has, updates))
								}
								_, after := h.HasTaint(w.Nodes[0], h.TaintKey)
								if (op == "add") != after {
									report("C15/final-state", fmt.Sprintf("after %s the node's escalator taint present=%v", op, after))
								}
								if op == "add" && has {
									if tt, _ := h.HasTaint(w.Nodes[0], h.TaintKey); tt.Value != "946684800" {
										report("C15/restamped", "re-tainting changed the recorded taint time")
									}
								}
								c.Nontrivial(fmt.Sprintf("grid/%v/%d/%s/%v/%v/%s", ord, pos, eff, unsched, meta, op))
								if len(c.R.Samples) < 2 {
									c.R.Samples = append(c.R.Samples, desc)
								}
							}
						}
					}
				}
			}
		}
	})
}

func init() {
	register(&Check{
		ID:    "C15",
		Level: "model_checking",
		Rule: "grid: AddToBeRemovedTaint / DeleteToBeRemovedTaint on every node with 0..4 foreign taints (two of them sharing a key) in every order, the escalator taint absent or at every position, four effects, unschedulable on/off, extra labels/annotations on/off; " +
			"histories (deviation-bounded DFS) that taint, untaint and re-taint the same nodes under stale views, external taints and restarts, three configured effects; every node update of every scan is diffed against the API store; " +
			"non-trivial = every grid case, and scans with a taint or untaint write; distinct = grid case / (slot, class, node, pods, age)",
		Grid:      c15Grid,
		Scenarios: C15Scenarios,
		Monitors:  func() []h.Monitor { return []h.Monitor{PreciseWrites{}, &NearMiss{Seen: map[string]struct{}{}}} },
		Bound: func(tier string) int {
			if tier == "thorough" {
				return 4
			}
			return 3
		},
		Prune:       true,
		Nontrivial:  seenKeys,
		Assumptions: commonAssumptions,
		Alphabet:    []string{"grid over node shapes", "ext-taint(i, now-1q | abc)", "ext-untaint(i)", "another-client-writes-between-get-and-update(i)", "stale-view", "burst", "clear-pods", "restart", "skip-settle", "fail at DescribeAutoScalingGroups (5 s retry sleep before the scan)"},
	})
}
