package props

import (
	"fmt"
	"time"

	"verif/h"
	"verif/ref"
	"verif/sim"
)

// ---------------------------------------------------------------------------------------------
// C02 — no scaling activity inside the scale-up cool-down; the lock never outlives it

// Cooldown tracks, per group and controller lifetime, the time A of the latest cloud-accepted
// scale-up and checks (i) no write for the group in (A, A+cool-down) and after the accepting call
// within its scan, (ii) once the period has elapsed the group is acted on again.
type Cooldown struct {
	a      map[string]time.Time
	aSeq   map[string]int
	aScan  map[string]int
	now    time.Time
	Seen   map[string]struct{}
}

func NewCooldown() *Cooldown {
	return &Cooldown{a: map[string]time.Time{}, aSeq: map[string]int{}, aScan: map[string]int{}, Seen: map[string]struct{}{}}
}

func (m *Cooldown) Key() string {
	s := ""
	for _, g := range sortedKeys(m.a) {
		s += fmt.Sprintf("%s:%d,", g, int64(m.now.Sub(m.a[g])/time.Second))
	}
	return s
}

func sortedKeys(m map[string]time.Time) []string {
	var ks []string
	for k := range m {
		ks = append(ks, k)
	}
	for i := range ks {
		for j := i + 1; j < len(ks); j++ {
			if ks[j] < ks[i] {
				ks[i], ks[j] = ks[j], ks[i]
			}
		}
	}
	return ks
}

func writeKind(e sim.Entry) string {
	switch e.Op {
	case sim.OpK8sUpdate:
		if h.TaintAdded(e) {
			return "taint"
		}
		if h.TaintRemoved(e) {
			return "untaint"
		}
		return "update"
	case sim.OpK8sDelete:
		return "delete"
	case sim.OpTerminate:
		return "terminate"
	case sim.OpSetDesired, sim.OpCreateFleet, sim.OpAttach:
		return "resize"
	case sim.OpTermIns:
		return "terminate-instances"
	case sim.OpTags:
		return "tag"
	}
	return e.Op
}

func (m *Cooldown) AfterScan(ctx *h.ScanCtx) []h.Violation {
	var out []h.Violation
	m.now = ctx.Start
	if ctx.Fresh {
		// a new controller lifetime starts without any lock
		m.a, m.aSeq, m.aScan = map[string]time.Time{}, map[string]int{}, map[string]int{}
	}
	for _, g := range ctx.Groups {
		if g.Dry {
			continue
		}
		cool := coolOf(g.Spec)
		writes := ctx.WritesFor(g)
		a, hasA := m.a[g.Name]
		// (i) writes inside the window opened by an earlier scan
		if hasA && ctx.Start.Sub(a) < cool {
			d := ref.Decide(g, ctx.Start)
			for _, e := range writes {
				if e.T.Sub(a) < cool {
					sig := "C02/write-in-cooldown/" + writeKind(e)
					if d.Class == "restore" {
						sig = "C02/write-in-cooldown/restore-branch"
					}
					out = append(out, h.Violation{Prop: "C02", Sig: sig,
						Msg: fmt.Sprintf("scan %d group %s: %s(%s) issued %s after the accepted scale-up (cool-down %s); reference class of this scan: %s", ctx.Scan, g.Name, e.Op, e.Target, e.T.Sub(a), cool, d.Class)})
				}
			}
			m.Seen[fmt.Sprintf("in-window:%s:+%d:%s:w%d", g.Name, int64(ctx.Start.Sub(a)/time.Second), d.Class, len(writes))] = struct{}{}
			ctx.H.Cov["c02.scans-in-window"]++
		}
		// (ii) the lock does not outlive the period. What counts is the moment the group's lock is
		// consulted (its first call of the scan): a failing refresh makes RunOnce sleep before that, so a
		// scan that began inside the window may reach the group after it. Such scans (their only injected
		// failures being DescribeAutoScalingGroups) are judged too.
		tCheck := ctx.Start
		for _, e := range ctx.Entries {
			if e.Phase == "group" && e.Group == g.Name {
				tCheck = e.T
				break
			}
		}
		onlyRefreshFaults := true
		for _, e := range ctx.Entries {
			// (a DescribeAutoScalingGroups made while the group is processed belongs to a fleet scale-up: if
			// that one fails the scale-up legitimately fails)
			if (e.Err == "injected" && (e.Op != sim.OpDescribeASG || e.Phase == "group")) || e.Err == "conflict" {
				onlyRefreshFaults = false
			}
		}
		if hasA && tCheck.Sub(a) >= cool && (!ctx.Faulted || onlyRefreshFaults) && ctx.Res.Err == nil && ctx.Res.Panic == nil && !ctx.Res.Killed {
			d := ref.Decide(g, ctx.Start)
			headroom := int64(g.Max)
			if g.CloudMax < headroom {
				headroom = g.CloudMax
			}
			headroom -= g.CloudDesired
			must := false
			switch d.Class {
			case "fast", "slow":
				must = d.TaintWant > 0 && d.Edge == "" && !d.Starve && !d.MaxAge
			case "up", "restore":
				must = len(g.T) > 0 || headroom > 0
			}
			if must {
				ctx.H.Cov["c02.acted-after-window"]++
				m.Seen[fmt.Sprintf("after-window:%s:+%d:%s", g.Name, int64(ctx.Start.Sub(a)/time.Second), d.Class)] = struct{}{}
				if len(writes) == 0 {
					out = append(out, h.Violation{Prop: "C02", Sig: "C02/lock-outlives-cooldown/" + d.Class,
						Msg: fmt.Sprintf("scan %d group %s: %s after the accepted scale-up (cool-down %s) the reference decision is %q but the scan made no write", ctx.Scan, g.Name, ctx.Start.Sub(a), cool, d.Class)})
				}
			}
		}
		// accepted increases of this scan, and writes after them within the scan
		for i, e := range writes {
			accepted := false
			switch {
			case e.Op == sim.OpSetDesired && e.Err == "" && e.Val > e.RealDesired:
				accepted = true
			case e.Op == sim.OpAttach && e.Err == "":
				// the fleet request is accepted when its last attach succeeded and nothing was terminated
				accepted = true
				for _, f := range writes[i+1:] {
					if f.Op == sim.OpAttach || f.Op == sim.OpTermIns {
						accepted = false
					}
				}
			}
			if !accepted {
				continue
			}
			m.a[g.Name], m.aSeq[g.Name], m.aScan[g.Name] = e.T, e.Seq, ctx.Scan
			ctx.H.Cov["c02.accepted-scale-ups"]++
			for _, f := range writes[i+1:] {
				out = append(out, h.Violation{Prop: "C02", Sig: "C02/write-after-accept-same-scan/" + writeKind(f),
					Msg: fmt.Sprintf("scan %d group %s: %s(%s) issued after the cloud accepted the scale-up in the same scan", ctx.Scan, g.Name, f.Op, f.Target)})
			}
			break
		}
	}
	if ctx.Res.Err != nil || ctx.Res.Panic != nil || ctx.Res.Killed || ctx.Res.Exit {
		m.a, m.aSeq, m.aScan = map[string]time.Time{}, map[string]int{}, map[string]int{}
	}
	return out
}

// C02Scenarios: groups at 200 % utilisation, cool-down 3q, scans every q (or 2q with extra-tick).
func C02Scenarios(tier string) []*h.Scenario {
	mk := func(name string, fleet bool, withTainted bool) *h.Scenario {
		g := StdGroup("g1")
		g.Opts.ScaleUpCoolDownPeriod = dur(3)
		g.Opts.MinNodes = 2
		if fleet {
			g.Opts.AWS.LaunchTemplateID = "lt-1"
			g.Opts.AWS.LaunchTemplateVersion = "1"
		}
		s := &h.Scenario{
			Name:             name,
			Groups:           []h.GroupSpec{g},
			Slots:            9,
			Quantum:          Q,
			MaxEventsPerSlot: 2,
			Init: func(hh *h.Hist) {
				a := InitASGs(hh)[0]
				n := 2
				if withTainted {
					n = 3
				}
				for i := 0; i < n; i++ {
					nd := hh.W.AddNode(a, sim.NodeOpt{Age: time.Duration(10+i) * Q})
					hh.W.AddPod(podOn(g, nd.Name, 1000))
				}
				for i := 0; i < n; i++ {
					hh.W.AddPod(podOn(g, "", 1000))
				}
				if withTainted {
					hh.W.AddNode(a, sim.NodeOpt{Age: 30 * Q, TaintAge: dp(5 * Q)})
					hh.W.AddNode(a, sim.NodeOpt{Age: 31 * Q, ForceTaint: true})
				}
			},
			Events: func(hh *h.Hist, slot int) []h.Event {
				var ev []h.Event
				for _, n := range groupNodes(hh, g, 4) {
					ev = append(ev, evPodFinish(g, n.Name), evCordon(n.Name, !n.Spec.Unschedulable), evForceTaint(n.Name), evExtTaint(n.Name, "now-5q"))
				}
				ev = append(ev, evBurst(g, 2, 1000), evClearAllPods(g), evSkipSettle(), evExtraTick(1), evRestart())
				return ev
			},
			// a failing DescribeAutoScalingGroups makes RunOnce rebuild the provider mid-window
			FaultOps: map[string]bool{sim.OpSetDesired: true, sim.OpAttach: true, sim.OpCreateFleet: true, sim.OpDescribeASG: true},
		}
		if withTainted {
			// the Node delete that follows an accepted termination may fail (no later run may finish it
			// inside a cool-down)
			s.FaultOps[sim.OpK8sDelete] = true
		}
		return s
	}
	// a cool-down that is not a multiple of the scan interval (150 s: scans land 30 s before / after expiry)
	off := mk("c02.setdesired.150s", false, false)
	off.Groups[0].Opts.ScaleUpCoolDownPeriod = "150s"
	// scale-up from zero nodes; the new instances take three scans to register, so scans inside the
	// window can see the group completely idle (no nodes, no pods) and busy again
	zero := mk("c02.from-zero", false, false)
	zero.Groups[0].Opts.MinNodes = 0
	gz := zero.Groups[0]
	zero.Init = func(hh *h.Hist) {
		InitASGs(hh)
		hh.W.AddPod(podOn(gz, "", 1000))
	}
	zero.Script = func(hh *h.Hist, slot int) {
		if slot < 3 {
			hh.SkipSettle = true
		}
	}
	zero.Events = func(hh *h.Hist, slot int) []h.Event {
		return []h.Event{evBurst(gz, 2, 1000), evClearAllPods(gz), evRestart(), evExtraTick(1)}
	}
	// fleet mode with a cool-down (30 s) shorter than the fleet ready timeout and than the scan interval
	short := mk("c02.fleet.30s", true, false)
	short.Groups[0].Opts.ScaleUpCoolDownPeriod = "30s"
	// a cool-down that ends 400 ms after a scan (120.4 s on the 60 s grid): the scan 0.4 s before expiry
	// is still inside the window
	frac := mk("c02.setdesired.120400ms", false, false)
	frac.Groups[0].Opts.ScaleUpCoolDownPeriod = "120400ms"
	// the documented extra scale-up triggers enabled: a starved pending pod or an over-age node inside
	// the window must not get past the lock either
	trig := mk("c02.setdesired.triggers", false, false)
	trig.Groups[0].Opts.ScaleOnStarve = true
	trig.Groups[0].Opts.MaxNodeAge = "15m"
	trig.Groups[0].Opts.MaxNodes, trig.Groups[0].ASG.Max = 14, 16 // room for more than one scale-up
	// a one-node scale-up from a group sitting exactly at min_nodes = 4 whose new instance takes four
	// scans to register: two cordons inside the window put the group below its minimum by more than the
	// amount already requested (seeded change C02-o)
	sf := mk("c02.setdesired.shortfall", false, false)
	sf.Groups[0].Opts.MinNodes = 4
	gs := sf.Groups[0]
	sf.Init = func(hh *h.Hist) {
		a := InitASGs(hh)[0]
		for i := 0; i < 4; i++ {
			nd := hh.W.AddNode(a, sim.NodeOpt{Age: time.Duration(10+i) * Q})
			if i < 3 {
				hh.W.AddPod(podOn(gs, nd.Name, 1000))
			}
		}
	}
	sf.Script = func(hh *h.Hist, slot int) {
		if slot < 4 {
			hh.SkipSettle = true
		}
	}
	sf.Events = func(hh *h.Hist, slot int) []h.Event {
		var ev []h.Event
		for _, n := range groupNodes(hh, gs, 4) {
			ev = append(ev, evCordon(n.Name, !n.Spec.Unschedulable))
		}
		return append(ev, evExtraTick(1), evRestart())
	}
	return []*h.Scenario{
		zero,
		sf,
		short,
		off,
		frac,
		trig,
		mk("c02.setdesired", false, false),
		mk("c02.setdesired.tainted", false, true),
		mk("c02.fleet", true, false),
	}
}

func init() {
	register(&Check{
		ID:    "C02",
		Level: "model_checking",
		Rule: "deviation-bounded DFS over 9-scan histories starting at 200 % utilisation with a 3-scan cool-down; non-trivial = a scan that started inside a cool-down window, or the first scans after it in which the reference decision demands action; " +
			"distinct = (group, seconds since acceptance, reference class, number of writes)",
		Scenarios: C02Scenarios,
		Monitors:  func() []h.Monitor { return []h.Monitor{NewCooldown()} },
		Bound: func(tier string) int {
			if tier == "thorough" {
				return 3
			}
			return 2
		},
		Prune: true,
		Nontrivial: func(hh *h.Hist) []string {
			var out []string
			for _, m := range hh.Monitors {
				if cm, ok := m.(*Cooldown); ok {
					for k := range cm.Seen {
						out = append(out, k)
					}
				}
			}
			return out
		},
		Assumptions: commonAssumptions,
		Alphabet:    []string{"pod-finish(i)", "cordon/uncordon(i)", "force-taint(i)", "ext-taint(i, now-5q)", "burst", "clear-pods", "skip-settle", "extra-tick(1q)", "restart", "fail at SetDesiredCapacity / AttachInstances / CreateFleet / DescribeAutoScalingGroups (provider rebuild)"},
	})
}
