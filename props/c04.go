package props

import (
	"fmt"
	"testing"
	"time"

	"verif/h"
	"verif/sim"
)

// ---------------------------------------------------------------------------------------------
// C04 — cloud target never exceeds min(max_nodes, cloud maximum)

type c04Case struct {
	MaxNodes, CloudMax, Nodes, Tainted, Util int
	Fleet                                    bool
	Kind                                     string // normal | belowmin | belowmin-cordoned | fromzero
}

func c04Build(p c04Case) *h.Scenario {
	g := StdGroup("g1")
	g.Opts.MinNodes = 0
	g.Opts.MaxNodes = p.MaxNodes
	g.ASG.Max = int64(p.CloudMax)
	if p.Fleet {
		g.Opts.AWS.LaunchTemplateID, g.Opts.AWS.LaunchTemplateVersion = "lt-1", "1"
	}
	u := p.Nodes - p.Tainted
	if p.Kind == "belowmin" {
		g.Opts.MinNodes = u + 1
	}
	if p.Kind == "belowmin-cordoned" {
		// the "tainted" count is used as the number of cordoned nodes: nothing can be untainted, so the
		// recovery has to ask the cloud
		g.Opts.MinNodes = u + 1
	}
	return &h.Scenario{
		Name:    fmt.Sprintf("c04.grid"),
		Groups:  []h.GroupSpec{g},
		Slots:   2,
		Quantum: Q,
		Init: func(hh *h.Hist) {
			a := InitASGs(hh)[0]
			for i := 0; i < p.Nodes; i++ {
				o := sim.NodeOpt{Age: time.Duration(10+i) * Q}
				if i >= u {
					if p.Kind == "belowmin-cordoned" {
						o.Cordoned = true
					} else {
						o.TaintAge = dp(1 * Q)
					}
				}
				hh.W.AddNode(a, o)
			}
			cap := int64(u) * 1000
			if u == 0 {
				cap = 1000
			}
			hh.W.AddPod(podOn(g, "", cap*int64(p.Util)/100))
		},
	}
}

func c04Monitors() []h.Monitor { return []h.Monitor{CloudBound{}, NewDecisions()} }

func c04Grid(t *testing.T, tier string, shard, shards int, c *h.Collector) {
	idx := 0
	for maxN := 1; maxN <= 6; maxN++ {
		for cloudMax := 1; cloudMax <= 8; cloudMax++ {
			for nodes := 0; nodes <= maxN && nodes <= cloudMax; nodes++ {
				for tainted := 0; tainted <= 2 && tainted <= nodes; tainted++ {
					for _, util := range []int{80, 150, 200, 400} {
						for _, fleet := range []bool{false, true} {
							for _, kind := range []string{"normal", "belowmin", "belowmin-cordoned", "fromzero"} {
								u := nodes - tainted
								switch kind {
								case "normal":
									if u == 0 {
										continue
									}
								case "belowmin":
									if tainted == 0 || u+1 >= maxN {
										continue
									}
								case "belowmin-cordoned":
									if tainted == 0 || u+1 >= maxN || u+1 > nodes {
										continue
									}
								case "fromzero":
									if u != 0 {
										continue
									}
								}
								idx++
								if idx%shards != shard {
									continue
								}
								p := c04Case{maxN, cloudMax, nodes, tainted, util, fleet, kind}
								s := c04Build(p)
								s.Monitors = c04Monitors
								hh := gridCase(t, c, s, p)
								for _, k := range seenKeys(hh) {
									c.Nontrivial("grid/" + fmt.Sprintf("M%dC%d/", maxN, cloudMax) + k)
								}
							}
						}
					}
				}
			}
		}
	}
}

// withMonitors returns the scenarios of other checks so that a property's monitors ride on them.
func histScenarios(tier string, sets ...func(string) []*h.Scenario) []*h.Scenario {
	var out []*h.Scenario
	for _, f := range sets {
		out = append(out, f(tier)...)
	}
	return out
}

// c04HistScenarios: fleet and SetDesiredCapacity groups with force-tainted / expired nodes at 200 %,
// failing terminate calls, and the cloud group's maximum edited while escalator runs (configured
// and auto-discovered bounds).
func c04HistScenarios(tier string) []*h.Scenario {
	var out []*h.Scenario
	for _, v := range []string{"fleet", "fleet-spot", "setdesired", "auto"} {
		g := StdGroup("g1")
		g.Opts.ScaleUpCoolDownPeriod = dur(2)
		switch v {
		case "fleet":
			g.Opts.AWS.LaunchTemplateID, g.Opts.AWS.LaunchTemplateVersion = "lt-1", "1"
		case "fleet-spot":
			// spot capacity may be granted only in part (an answer with instances and an error entry)
			g.Opts.AWS.LaunchTemplateID, g.Opts.AWS.LaunchTemplateVersion = "lt-1", "1"
			g.Opts.AWS.Lifecycle = "spot"
		case "auto":
			g.Opts.MinNodes, g.Opts.MaxNodes = 0, 0
			g.ASG.Min, g.ASG.Max = 1, 8
		}
		gg := g
		s := &h.Scenario{Name: "c04.hist." + v, Groups: []h.GroupSpec{gg}, Slots: 6, Quantum: Q, MaxEventsPerSlot: 2,
			FaultOps: map[string]bool{sim.OpTerminate: true, sim.OpSetDesired: true, sim.OpAttach: true},
			Init: func(hh *h.Hist) {
				a := InitASGs(hh)[0]
				for i := 0; i < 2; i++ {
					n := hh.W.AddNode(a, sim.NodeOpt{Age: time.Duration(10+i) * Q})
					hh.W.AddPod(podOn(gg, n.Name, 1000))
				}
				hh.W.AddPod(podOn(gg, "", 6000))
				hh.W.AddNode(a, sim.NodeOpt{Age: 30 * Q, ForceTaint: true})
				hh.W.AddNode(a, sim.NodeOpt{Age: 31 * Q, TaintAge: dp(5 * Q)})
			},
			Events: func(hh *h.Hist, slot int) []h.Event {
				ev := []h.Event{evASGEdit(gg.ASG.Name, gg.ASG.Min, 5), evASGEdit(gg.ASG.Name, gg.ASG.Min, 4), evASGEdit(gg.ASG.Name, gg.ASG.Min, 12),
					evBurst(gg, 2, 3000), evClearAllPods(gg), evSkipSettle(), evRestart()}
				if gg.Opts.AWS.Lifecycle == "spot" {
					ev = append(ev, h.Event{Label: "fleet-answers-one-instance-short", Apply: func(hh *h.Hist) { hh.W.FleetShort = 1 }},
						h.Event{Label: "fleet-answers-in-full", Apply: func(hh *h.Hist) { hh.W.FleetShort = 0 }})
				}
				if gg.Opts.MaxNodes > 0 {
					// the operator pins the cloud group above max_nodes for a while (minimum 7 of at most 8) and
					// releases it again: max_nodes stays the bound throughout
					ev = append(ev, evASGEdit(gg.ASG.Name, 7, 8), evASGEdit(gg.ASG.Name, 0, 8))
				}
				return ev
			},
		}
		out = append(out, s)
	}
	// a clamped fleet scale-up of more than one attach batch, with every attach call failing
	{
		g := StdGroup("g1")
		g.Opts.MaxNodes = 40
		g.ASG.Max = 100
		g.Opts.AWS.LaunchTemplateID, g.Opts.AWS.LaunchTemplateVersion = "lt-1", "1"
		s := &h.Scenario{Name: "c04.hist.bigfleet", Groups: []h.GroupSpec{g}, Slots: 3, Quantum: Q, MaxEventsPerSlot: 1,
			FaultOps: map[string]bool{sim.OpAttach: true, sim.OpCreateFleet: true},
			Init: func(hh *h.Hist) {
				a := InitASGs(hh)[0]
				for i := 0; i < 5; i++ {
					n := hh.W.AddNode(a, sim.NodeOpt{Age: time.Duration(10+i) * Q})
					hh.W.AddPod(podOn(g, n.Name, 1000))
				}
				hh.W.AddPod(podOn(g, "", 60000))
			},
			Events: func(hh *h.Hist, slot int) []h.Event { return []h.Event{evRestart(), evSkipSettle()} },
		}
		out = append(out, s)
	}
	return out
}

func init() {
	register(&Check{
		ID:    "C04",
		Level: "model_checking",
		Rule: "grid: every (max_nodes 1..6, cloud max 1..8, nodes, tainted 0..2, utilisation 80/150/200/400 %, SetDesiredCapacity|fleet, normal|below-min|from-zero) single-scan case on the real controller, " +
			"plus the bound and clamp monitors on histories (deviation-bounded DFS): groups with force-tainted / expired nodes at 200 % in fleet and SetDesiredCapacity mode with failing terminate calls and the cloud maximum edited at run time (configured and auto-discovered bounds), and the C02 scenarios; non-trivial = scans whose reference class is up/restore; distinct = (max_nodes, cloud max, class, |U|,|T|, observed taints/untaints/requests)",
		Grid:       c04Grid,
		ReplayCase: replayGrid(c04Build, c04Monitors),
		Scenarios:  func(tier string) []*h.Scenario { return histScenarios(tier, c04HistScenarios, C02Scenarios) },
		Monitors:   c04Monitors,
		Bound: func(tier string) int {
			if tier == "thorough" {
				return 3
			}
			return 2
		},
		Prune:       true,
		Nontrivial:  seenKeys,
		Assumptions: commonAssumptions,
		Alphabet:    []string{"grid over (max_nodes, cloud max, nodes, tainted, utilisation, mode, kind)", "C02 history alphabet"},
	})
}
