package props

import (
	"fmt"
	"regexp"
	"strings"
	"time"

	"github.com/atlassian/escalator/pkg/cloudprovider"
	v1 "k8s.io/api/core/v1"

	"verif/h"
	"verif/sim"
)

// ---------------------------------------------------------------------------------------------
// C20 — a scan never panics or wedges on odd objects or failing APIs

var (
	// package.(*Type).Method or package.Func at the end of an import path, without arguments
	frameRe = regexp.MustCompile(`([A-Za-z0-9_]+\.(?:\(\*?[A-Za-z0-9_]+\)\.)?[A-Za-z0-9_]+)\(`)
	hexRe   = regexp.MustCompile(`0x[0-9a-f]+`)
)

// NoCrash: no panic, no hang, only the not-in-group condition stops the controller, and the scan
// after a faulted scan is normal.
type NoCrash struct {
	D            *Decisions
	// CrashOnly skips the "next scan is normal" clause (worlds the reference decision does not define).
	CrashOnly    bool
	prevFaulted  bool
	prevLifetime int
}

func (m *NoCrash) Key() string { return fmt.Sprint(m.prevFaulted) + m.D.Key() }
func (m *NoCrash) AfterScan(ctx *h.ScanCtx) []h.Violation {
	var out []h.Violation
	add := func(sig, msg string) {
		out = append(out, h.Violation{Prop: "C20", Sig: sig, Msg: fmt.Sprintf("scan %d: %s", ctx.Scan, msg)})
	}
	r := ctx.Res
	switch {
	case r.Panic != nil:
		fn := "unknown"
		if parts := strings.Split(r.Stack, " <- "); len(parts) > 0 && parts[0] != "" {
			if m := frameRe.FindStringSubmatch(parts[0]); m != nil {
				fn = m[1]
			}
		}
		stack := hexRe.ReplaceAllString(r.Stack, "0x..")
		r.Stack = stack
		add("C20/panic/"+fn, fmt.Sprintf("panic: %v [%s]", r.Panic, r.Stack))
	case r.Hang:
		add("C20/hang", "the scan did not return within 10000 virtual seconds")
	case r.Err != nil:
		if _, ok := r.Err.(*cloudprovider.NodeNotInNodeGroup); ok {
			ctx.H.Cov["c20.not-in-group-stops"]++
		} else {
			cls := "other"
			if strings.Contains(r.Err.Error(), "DescribeAutoScalingGroups") {
				cls = "provider-rebuild-failed"
			} else if strings.Contains(r.Err.Error(), "could not find node group") {
				cls = "node-group-missing"
			}
			add("C20/stop/"+cls, fmt.Sprintf("RunOnce returned %q: the controller stops although the condition is not the documented not-in-group one", r.Err.Error()))
		}
	case r.Exit:
		ctx.H.Cov["c20.exit-after-third-failed-fleet-provisioning"]++
	}
	inner := m.D.AfterScan(ctx)
	if !m.CrashOnly && m.prevFaulted && !ctx.Faulted && !ctx.Fresh && r.Err == nil && r.Panic == nil {
		ctx.H.Cov["c20.fault-free-scan-after-faulted-scan"]++
		for _, v := range inner {
			if strings.Contains(v.Sig, "float-equality") {
				continue
			}
			add("C20/next-scan-not-normal/"+v.Sig, "after a transient failure the following scan deviates from the reference decision: "+v.Msg)
		}
	}
	if ctx.Faulted {
		ctx.H.Cov["c20.faulted-scans"]++
	}
	m.prevFaulted = ctx.Faulted && r.Err == nil && r.Panic == nil && !r.Exit
	return out
}

func oddPod(g h.GroupSpec, kind string, node string) *v1.Pod {
	p := &v1.Pod{}
	p.Name, p.Namespace = "odd-"+kind+"-"+node, "default"
	p.Spec.NodeName = node
	p.Spec.NodeSelector = sel(g)
	p.Status.Phase = v1.PodRunning
	if node == "" {
		p.Status.Phase = v1.PodPending
	}
	switch kind {
	case "norequests":
		p.Spec.Containers = []v1.Container{{Name: "c"}}
	case "nocontainers":
	case "affinity-empty":
		p.Spec.Affinity = &v1.Affinity{}
		p.Spec.Containers = []v1.Container{{Name: "c"}}
	case "na-empty-unselected":
		p.Spec.NodeSelector = nil
		p.Spec.Affinity = &v1.Affinity{NodeAffinity: &v1.NodeAffinity{}}
		p.Spec.Containers = []v1.Container{{Name: "c"}}
	case "preferred-only-unselected":
		p.Spec.NodeSelector = map[string]string{"zone": "a"}
		p.Spec.Affinity = &v1.Affinity{NodeAffinity: &v1.NodeAffinity{PreferredDuringSchedulingIgnoredDuringExecution: []v1.PreferredSchedulingTerm{{Weight: 1}}}}
		p.Spec.Containers = []v1.Container{{Name: "c"}}
	case "affinity-partial":
		p.Spec.Affinity = &v1.Affinity{NodeAffinity: &v1.NodeAffinity{RequiredDuringSchedulingIgnoredDuringExecution: &v1.NodeSelector{NodeSelectorTerms: []v1.NodeSelectorTerm{{}}}}}
		p.Spec.Containers = []v1.Container{{Name: "c"}}
	}
	return p
}

func evAddOddNode(g h.GroupSpec, pid string) h.Event {
	return h.Event{Label: fmt.Sprintf("register-node(providerID=%q)", pid), Apply: func(hh *h.Hist) {
		if a := hh.W.FindASG(g.ASG.Name); a != nil && a.Desired < a.Max {
			hh.W.AddNode(a, sim.NodeOpt{ProviderID: sp(pid)})
		}
	}}
}

func evAddNoAllocNode(g h.GroupSpec) h.Event {
	return h.Event{Label: "register-node(no allocatable)", Apply: func(hh *h.Hist) {
		if a := hh.W.FindASG(g.ASG.Name); a != nil && a.Desired < a.Max {
			hh.W.AddNode(a, sim.NodeOpt{NoAlloc: true})
		}
	}}
}

func evDescInsDown() h.Event {
	return h.Event{Label: "ec2-describe-instances-down", Apply: func(hh *h.Hist) { hh.SlotFlags["descins-down"] = true }}
}

var c20AllOps = map[string]bool{sim.OpK8sGet: true, sim.OpK8sUpdate: true, sim.OpK8sDelete: true, sim.OpListPods: true, sim.OpListNodes: true,
	sim.OpDescribeASG: true, sim.OpSetDesired: true, sim.OpTerminate: true, sim.OpAttach: true, sim.OpTags: true, sim.OpCreateFleet: true, sim.OpStatus: true, sim.OpTermIns: true}

func C20Scenarios(tier string) []*h.Scenario {
	var out []*h.Scenario
	// the zoo: every odd object at once, every call failing
	{
		g := StdGroup("g1")
		g.Opts.MaxNodes = 14
		g.ASG.Max = 14
		s := &h.Scenario{Name: "c20.zoo", Groups: []h.GroupSpec{g}, Slots: 5, Quantum: Q, MaxEventsPerSlot: 1, FaultOps: c20AllOps}
		s.Init = func(hh *h.Hist) {
			a := InitASGs(hh)[0]
			n1 := hh.W.AddNode(a, sim.NodeOpt{Age: 20 * Q})
			hh.W.Pods = append(hh.W.Pods, oddPod(g, "norequests", n1.Name), oddPod(g, "nocontainers", n1.Name), oddPod(g, "affinity-empty", n1.Name), oddPod(g, "affinity-partial", ""),
				oddPod(g, "na-empty-unselected", n1.Name), oddPod(g, "preferred-only-unselected", ""))
			hh.W.AddNode(a, sim.NodeOpt{Age: 21 * Q, NoAlloc: true})
			hh.W.AddNode(a, sim.NodeOpt{Age: 22 * Q, ProviderID: sp("")})
			hh.W.AddNode(a, sim.NodeOpt{Age: 23 * Q, ProviderID: sp("garbage"), TaintAge: dp(5 * Q)})
			hh.W.AddNode(a, sim.NodeOpt{Age: 24 * Q, ProviderID: sp("aws://x")})
			hh.W.AddNode(a, sim.NodeOpt{Age: 29 * Q, ProviderID: sp("aws:///az-a")})
			for i, v := range []string{"", "abc", "-5", "99999999999999999999"} {
				hh.W.AddNode(a, sim.NodeOpt{Age: time.Duration(25+i) * Q, TaintValue: sp(v)})
			}
			hh.W.AddNode(a, sim.NodeOpt{Age: 30 * Q, TaintValue: sp("abc"), TaintEffect: v1.TaintEffectNoExecute})
			hh.W.AddNode(a, sim.NodeOpt{Age: 31 * Q, TaintValue: sp(""), TaintEffect: v1.TaintEffectPreferNoSchedule})
		}
		s.Events = func(hh *h.Hist, slot int) []h.Event {
			return []h.Event{evBurst(g, 3, 4000), evClearAllPods(g), evRestart(), evDescInsDown()}
		}
		out = append(out, s)
	}
	// nodes carrying the escalator taint twice (different effects), in the three possible orders around a
	// foreign taint. The reference decision does not define such nodes, so only the crash clauses apply.
	{
		g := StdGroup("g1")
		g.Opts.MaxNodes = 10
		g.ASG.Max = 10
		s := &h.Scenario{Name: "c20.dup-taint", Groups: []h.GroupSpec{g}, Slots: 4, Quantum: Q, MaxEventsPerSlot: 1, FaultOps: c20AllOps}
		s.Init = func(hh *h.Hist) {
			a := InitASGs(hh)[0]
			n1 := hh.W.AddNode(a, sim.NodeOpt{Age: 20 * Q})
			hh.W.AddPod(podOn(g, n1.Name, 500))
			esc1 := v1.Taint{Key: h.TaintKey, Value: "946684700", Effect: v1.TaintEffectNoSchedule}
			esc2 := v1.Taint{Key: h.TaintKey, Value: "946684800", Effect: v1.TaintEffectNoExecute}
			other := v1.Taint{Key: "other", Value: "x", Effect: v1.TaintEffectNoSchedule}
			for i, ts := range [][]v1.Taint{{esc1, other, esc2}, {other, esc1, esc2}, {esc1, esc2, other}} {
				n := hh.W.AddNode(a, sim.NodeOpt{Age: time.Duration(21+i) * Q})
				n.Spec.Taints = ts
			}
		}
		s.Events = func(hh *h.Hist, slot int) []h.Event {
			return []h.Event{evBurst(g, 3, 2000), evClearAllPods(g), evRestart()}
		}
		out = append(out, s)
	}
	// the same zoo under dry mode (dry taints live in memory only: the reaper sees "tainted" nodes
	// that carry no taint)
	{
		g := StdGroup("g1")
		g.Opts.MaxNodes = 14
		g.ASG.Max = 14
		g.Opts.DryMode = true
		g.Opts.MinNodes = 0
		s := &h.Scenario{Name: "c20.dry", Groups: []h.GroupSpec{g}, Slots: 5, Quantum: Q, MaxEventsPerSlot: 1, FaultOps: c20AllOps}
		s.Init = func(hh *h.Hist) {
			a := InitASGs(hh)[0]
			n1 := hh.W.AddNode(a, sim.NodeOpt{Age: 20 * Q})
			hh.W.AddPod(podOn(g, n1.Name, 50))
			hh.W.AddNode(a, sim.NodeOpt{Age: 21 * Q})
			hh.W.AddNode(a, sim.NodeOpt{Age: 22 * Q, TaintAge: dp(5 * Q)})
			hh.W.AddNode(a, sim.NodeOpt{Age: 23 * Q, ForceTaint: true})
			hh.W.AddNode(a, sim.NodeOpt{Age: 24 * Q, NoAlloc: true})
		}
		s.Events = func(hh *h.Hist, slot int) []h.Event {
			return []h.Event{evBurst(g, 3, 4000), evClearAllPods(g), evRestart(),
				// nodes leave the cluster for outside reasons after the dry-mode trackers recorded them
				{Label: "two-oldest-nodes-vanish", Apply: func(hh *h.Hist) {
					a := hh.W.FindASG(g.ASG.Name)
					for k := 0; k < 2 && len(a.Instances) > 1; k++ {
						last := a.Instances[len(a.Instances)-1]
						a.Instances = a.Instances[:len(a.Instances)-1]
						a.Desired--
						hh.W.EC2[last.ID].State = "terminated"
					}
					hh.W.Settle()
				}},
				{Label: "all-but-one-node-vanish", Apply: func(hh *h.Hist) {
					a := hh.W.FindASG(g.ASG.Name)
					for len(a.Instances) > 1 {
						last := a.Instances[len(a.Instances)-1]
						a.Instances = a.Instances[:len(a.Instances)-1]
						a.Desired--
						hh.W.EC2[last.ID].State = "terminated"
					}
					hh.W.Settle()
				}}}
		}
		out = append(out, s)
	}
	// registration lag: scale up, wait out the cool-down, odd nodes register meanwhile
	for _, mode := range []string{"setdesired", "fleet", "fleet-zero-timeout"} {
		fleet := mode != "setdesired"
		g := StdGroup("g1")
		g.Opts.MaxNodes = 10
		g.ASG.Max = 10
		name := "c20.lag." + mode
		if fleet {
			g.Opts.AWS.LaunchTemplateID, g.Opts.AWS.LaunchTemplateVersion = "lt-1", "1"
		}
		s := &h.Scenario{Name: name, Groups: []h.GroupSpec{g}, Slots: 6, Quantum: Q, MaxEventsPerSlot: 1, FaultOps: c20AllOps, FleetTimeout: 2500 * time.Millisecond}
		if mode == "fleet-zero-timeout" {
			// a configured ready timeout of zero: every fleet scale-up fails at once and is cleaned up
			s.FleetTimeout = -1
			s.Slots = 4
		}
		s.Init = func(hh *h.Hist) {
			a := InitASGs(hh)[0]
			for i := 0; i < 2; i++ {
				n := hh.W.AddNode(a, sim.NodeOpt{Age: time.Duration(10+i) * Q})
				hh.W.AddPod(podOn(g, n.Name, 900))
			}
		}
		s.Events = func(hh *h.Hist, slot int) []h.Event {
			return []h.Event{evAddOddNode(g, ""), evAddOddNode(g, "garbage"), evAddOddNode(g, "aws://x"), evAddOddNode(g, "aws:///az-a"), evAddOddNode(g, "aws:///az-a/"), evAddOddNode(g, "a/b/c/d/e/f"), evAddNoAllocNode(g), evBurst(g, 2, 900), evClearAllPods(g), evRestart(), evDescInsDown(),
				{Label: "instances-never-ready", Apply: func(hh *h.Hist) { hh.W.ReadyFromPoll = -1 }}}
		}
		out = append(out, s)
	}
	// auto-discovered bounds on a cloud group whose maximum is currently 0: no nodes, pods waiting
	{
		g := StdGroup("g1")
		g.Opts.MinNodes, g.Opts.MaxNodes = 0, 0
		g.ASG.Min, g.ASG.Max = 0, 0
		s := &h.Scenario{Name: "c20.auto-zero-max", Groups: []h.GroupSpec{g}, Slots: 4, Quantum: Q, MaxEventsPerSlot: 1, FaultOps: c20AllOps}
		s.Init = func(hh *h.Hist) {
			InitASGs(hh)
			hh.W.AddPod(podOn(g, "", 500))
		}
		s.Events = func(hh *h.Hist, slot int) []h.Event {
			return []h.Event{evBurst(g, 2, 900), evClearAllPods(g), evRestart(), evASGEdit(g.ASG.Name, 0, 3), evASGEdit(g.ASG.Name, 0, 0)}
		}
		out = append(out, s)
	}
	// zero-capacity group: nodes without allocatable only, and from-zero
	{
		g := StdGroup("g1")
		g.Opts.MinNodes = 0
		g.Opts.MaxNodeAge = "1h"
		g.Opts.ScaleOnStarve = true
		s := &h.Scenario{Name: "c20.zero-capacity", Groups: []h.GroupSpec{g}, Slots: 5, Quantum: Q, MaxEventsPerSlot: 1, FaultOps: c20AllOps}
		s.Init = func(hh *h.Hist) {
			a := InitASGs(hh)[0]
			hh.W.AddNode(a, sim.NodeOpt{Age: 20 * Q, NoAlloc: true})
			hh.W.AddNode(a, sim.NodeOpt{Age: 21 * Q, CPUMilli: 0, MemBytes: 0, NoAlloc: true, TaintAge: dp(1 * Q)})
			hh.W.AddPod(podOn(g, "", 500))
		}
		s.Events = func(hh *h.Hist, slot int) []h.Event {
			return []h.Event{evBurst(g, 2, 900), evClearAllPods(g), evRestart(), evAddNoAllocNode(g),
				{Label: "all-nodes-vanish", Apply: func(hh *h.Hist) {
					a := hh.W.FindASG(g.ASG.Name)
					for _, in := range a.Instances {
						hh.W.EC2[in.ID].State = "terminated"
					}
					a.Instances, a.Desired = nil, 0
					hh.W.Nodes = nil
				}}}
		}
		out = append(out, s)
	}
	return out
}

func init() {
	register(&Check{
		ID:    "C20",
		Level: "fault_enumeration",
		Rule: "deviation-bounded DFS over 5..6-scan histories of worlds holding odd objects (no allocatable, provider ids \"\", \"garbage\", \"aws://x\", \"aws:///az-a\", \"aws:///az-a/\", \"a/b/c/d/e/f\", taint values \"\", \"abc\", \"-5\", 20 nines, pods without requests / containers / with empty and partial affinity, a node carrying the escalator taint twice), the same under dry mode, nodes with odd provider ids registering during a cool-down (SetDesiredCapacity and fleet mode), zero-capacity and vanished groups; " +
			"a failure is injected at every Kubernetes / AWS call and lister of every scan, up to 3 deviations (quick) / 4 (thorough), DescribeInstances failing slot-wide; non-trivial = scans with an injected fault or an odd object in view; distinct = distinct execution traces",
		Scenarios: C20Scenarios,
		MonitorsFor: func(s *h.Scenario) []h.Monitor {
			return []h.Monitor{&NoCrash{D: NewDecisions(), CrashOnly: s.Name == "c20.dup-taint"}}
		},
		Bound: func(tier string) int {
			if tier == "thorough" {
				return 4
			}
			return 3
		},
		Prune:       true,
		Nontrivial:  func(hh *h.Hist) []string { return []string{fmt.Sprint(hh.Trace)} },
		Assumptions: append([]string{"hangs are detected in virtual time (a scan blocked on timers, channels or sleeps for 10000 virtual seconds); a CPU-bound loop is caught by a real-time watchdog outside the bubble (one execution in flight for more than VERIF_STALL_S = 300 s, against a normal cost of milliseconds)", "DescribeInstances calls are issued while ranging over a map, so their failure is a slot-wide switch rather than a per-call choice"}, commonAssumptions...),
		Alphabet:    []string{"fail at every k8s get/update/delete, pod/node lister, DescribeAutoScalingGroups, SetDesiredCapacity, TerminateInstanceInAutoScalingGroup, AttachInstances, CreateOrUpdateTags, CreateFleet, DescribeInstanceStatus, TerminateInstances", "ec2-describe-instances-down", "register-node(odd provider id | no allocatable)", "burst", "clear-pods", "restart", "instances-never-ready", "all-nodes-vanish"},
	})
}
