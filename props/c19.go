package props

import (
	"fmt"
	"strings"
	"testing"
	"testing/synctest"
	"time"

	"github.com/atlassian/escalator/pkg/cloudprovider"
	v1 "k8s.io/api/core/v1"
	metav1 "k8s.io/apimachinery/pkg/apis/meta/v1"

	"verif/h"
	"verif/ref"
	"verif/sim"
)

// ---------------------------------------------------------------------------------------------
// C19 — AWS node removal hits only the right instances and respects the ASG minimum

type c19Case struct {
	Min, Desired int
	Nodes        []string // m1 m2 m3 foreign unknown malformed
	FailAt       int      // k-th terminate call fails (0 = none)
	Pending      int      // instances the ASG is still launching: desired = instances + Pending
	Lifecycle    string   // aws.lifecycle of the group
}

func c19Check(c *h.Collector, p c19Case) {
	c.R.Evaluations++
	report := func(sig, msg string) {
		c.Report(h.Found{Violation: h.Violation{Prop: "C19", Sig: sig, Msg: fmt.Sprintf("%+v: %s", p, msg)}, Scenario: "c19.provider", Case: p})
	}
	env, err := newProvEnv(sim.ASG{Name: "asg-g1", Min: int64(p.Min), Max: 20}, p.Desired, cloudprovider.AWSNodeGroupConfig{Lifecycle: p.Lifecycle})
	if err != nil {
		report("C19/setup", err.Error())
		return
	}
	env.ASG.Desired += int64(p.Pending)
	if err := env.Prov.Refresh(); err != nil {
		report("C19/setup", err.Error())
		return
	}
	instances := p.Desired
	p.Desired += p.Pending
	_ = instances
	// another ASG holding the foreign node's instance
	other := env.W.AddASG(sim.ASG{Name: "asg-other", Min: 0, Max: 5, LabelKey: "customer", LabelValue: "g1"})
	foreign := env.W.AddNode(other, sim.NodeOpt{})
	mk := func(kind string) (*v1.Node, string, bool) {
		switch kind {
		case "foreign":
			return foreign.DeepCopy(), sim.InstanceIDOf(foreign.Spec.ProviderID), false
		case "unknown":
			return &v1.Node{ObjectMeta: metav1.ObjectMeta{Name: "ghost"}, Spec: v1.NodeSpec{ProviderID: "aws:///az-a/i-ghost"}}, "i-ghost", false
		case "malformed":
			return &v1.Node{ObjectMeta: metav1.ObjectMeta{Name: "odd"}, Spec: v1.NodeSpec{ProviderID: "garbage"}}, "", false
		}
		i := int(kind[1] - '1')
		if i >= len(env.ASG.Instances) {
			return nil, "", false
		}
		id := env.ASG.Instances[i].ID
		return env.W.FindNode(sim.NodeName(id)).DeepCopy(), id, true
	}
	var nodes []*v1.Node
	var ids []string
	var member []bool
	for _, k := range p.Nodes {
		n, id, m := mk(k)
		if n == nil {
			return // the member does not exist at this desired size: not a case
		}
		nodes, ids, member = append(nodes, n), append(ids, id), append(member, m)
	}
	c.Nontrivial(fmt.Sprintf("%+v", p))
	if p.FailAt > 0 {
		env.W.D = newOccDecider().failAt(sim.OpTerminate, p.FailAt)
	}
	mark := len(env.W.J)
	err, _, pan := callProtected(func() error { return env.NG.DeleteNodes(nodes...) })
	if pan != nil {
		report("C19/panic", fmt.Sprint(pan))
		return
	}
	var terms []sim.Entry
	for _, e := range env.W.J[mark:] {
		if e.Write() {
			if e.Op != sim.OpTerminate {
				report("C19/unexpected-write", e.Op)
			}
			terms = append(terms, e)
		}
	}
	for _, e := range terms {
		if !e.Dec {
			report("C19/no-decrement", "terminate without ShouldDecrementDesiredCapacity")
		}
	}
	if p.Desired-len(nodes) < p.Min {
		c.R.Cov["c19.refused-for-minimum"]++
		if err == nil {
			report("C19/minimum-not-refused", fmt.Sprintf("removing %d of desired %d with min %d returned no error", len(nodes), p.Desired, p.Min))
		}
		if len(terms) > 0 {
			report("C19/write-when-refused", fmt.Sprintf("request breaching the minimum still issued %d terminate calls", len(terms)))
		}
		if _, nig := err.(*cloudprovider.NodeNotInNodeGroup); nig {
			report("C19/not-in-group-before-minimum-refusal", "a request that is refused as a whole for the group minimum was answered with the (fatal) not-in-group error")
		}
		return
	}
	// expected: the nodes' instances in order, up to the first non-member (no call) or failing call (included)
	var want []string
	stopNonMember, stopFail := false, false
	seen := map[string]bool{}
	for i := range nodes {
		if !member[i] {
			stopNonMember = true
			break
		}
		want = append(want, ids[i])
		if p.FailAt == len(want) || seen[ids[i]] {
			stopFail = true // injected failure, or the same instance a second time (AWS rejects it)
			break
		}
		seen[ids[i]] = true
	}
	var got []string
	for _, e := range terms {
		got = append(got, e.Target)
	}
	if fmt.Sprint(got) != fmt.Sprint(want) {
		report("C19/wrong-targets", fmt.Sprintf("terminate calls %v, expected %v", got, want))
	}
	okCount := 0
	for _, e := range terms {
		if e.Err == "" {
			okCount++
		}
	}
	if okCount > p.Desired-p.Min {
		report("C19/below-minimum", fmt.Sprintf("%d instances terminated with desired %d and min %d", okCount, p.Desired, p.Min))
	}
	_, isNIG := err.(*cloudprovider.NodeNotInNodeGroup)
	switch {
	case stopNonMember:
		c.R.Cov["c19.not-in-group-cases"]++
		if !isNIG {
			report("C19/no-not-in-group-error", fmt.Sprintf("a non-member node was given but the error is %v", err))
		}
	case stopFail:
		c.R.Cov["c19.failed-terminate-cases"]++
		if err == nil {
			report("C19/failure-not-reported", "a terminate call failed but DeleteNodes returned nil")
		}
		if isNIG {
			report("C19/spurious-not-in-group", "a failing terminate call was reported as not-in-group (would stop escalator)")
		}
	default:
		c.R.Cov["c19.clean-cases"]++
		if err != nil {
			report("C19/error-on-success", err.Error())
		}
	}
	if len(c.R.Samples) < 2 && stopNonMember && len(want) > 0 {
		c.R.Samples = append(c.R.Samples, map[string]any{"case": p, "terminated": got, "error": fmt.Sprint(err)})
	}
}

func c19Grid(t *testing.T, tier string, shard, shards int, c *h.Collector) {
	alphabet := []string{"m1", "m2", "m3", "foreign", "unknown", "malformed"}
	var seqs [][]string
	var rec func(cur []string)
	rec = func(cur []string) {
		if len(cur) > 0 {
			seqs = append(seqs, append([]string(nil), cur...))
		}
		if len(cur) == 3 {
			return
		}
		for _, a := range alphabet {
			rec(append(cur, a))
		}
	}
	rec(nil)
	synctest.Test(t, func(t *testing.T) {
		idx := 0
		for min := 0; min <= 3; min++ {
			for desired := 0; desired <= 5; desired++ {
				for _, s := range seqs {
					for fail := 0; fail <= len(s); fail++ {
						idx++
						if idx%shards != shard {
							continue
						}
						c19Check(c, c19Case{Min: min, Desired: desired, Nodes: s, FailAt: fail})
						if fail == 0 {
							c19Check(c, c19Case{Min: min, Desired: desired, Nodes: s, Lifecycle: "spot"})
							c19Check(c, c19Case{Min: min, Desired: desired, Nodes: s, Lifecycle: "on-demand"})
						}
						if len(s) <= 2 {
							c19Check(c, c19Case{Min: min, Desired: desired, Nodes: s, FailAt: fail, Pending: 1})
						}
					}
				}
			}
		}
		if shard == 0 {
			c19RunForever(t, c)
		}
	})
}

// c19RunForever: the not-in-group error is what RunForever returns (escalator exits).
func c19RunForever(t *testing.T, c *h.Collector) {
	for _, foreignFirst := range []bool{true, false} {
		s := c19Scenario("c19.runforever", foreignFirst)
		hh := &h.Hist{S: s, W: sim.NewWorld(), Cov: map[string]int64{}}
		for _, g := range s.Groups {
			hh.W.Groups = append(hh.W.Groups, g.Opts.Name)
			hh.W.GroupASG[g.Opts.Name] = g.Opts.CloudProviderGroupName
		}
		s.Init(hh)
		if !hh.NewController() {
			c.Report(h.Found{Violation: h.Violation{Prop: "C19", Sig: "C19/setup", Msg: "controller start-up failed"}, Scenario: s.Name})
			continue
		}
		hh.W.Sync()
		stop := make(chan struct{})
		hh.C.VerifSetStopChan(stop)
		res := make(chan error, 1)
		go func() { res <- hh.C.RunForever(true) }()
		var err error
		select {
		case err = <-res:
		case <-time.After(30 * time.Second):
			close(stop)
			err = <-res
		}
		c.R.Evaluations++
		c.Nontrivial(fmt.Sprint("runforever/", foreignFirst))
		if _, ok := err.(*cloudprovider.NodeNotInNodeGroup); !ok {
			c.Report(h.Found{Violation: h.Violation{Prop: "C19", Sig: "C19/runforever-does-not-stop", Msg: fmt.Sprintf("a tainted, expired node that is not a member of the group was selected for removal but RunForever returned %v", err)}, Scenario: s.Name})
		}
	}
}

// c19Scenario: two groups; g1 holds an expired tainted node whose instance belongs to another ASG.
func c19Scenario(name string, foreignFirst bool) *h.Scenario {
	g1, g2 := StdGroup("g1"), StdGroup("g2")
	s := &h.Scenario{Name: name, Groups: []h.GroupSpec{g1, g2}, Slots: 6, Quantum: Q, MaxEventsPerSlot: 2}
	s.Init = func(hh *h.Hist) {
		as := InitASGs(hh)
		other := hh.W.AddASG(sim.ASG{Name: "asg-other", Min: 0, Max: 5, LabelKey: g1.Opts.LabelKey, LabelValue: g1.Opts.LabelValue})
		addForeign := func() {
			if strings.Contains(name, "in-registered-asg") {
				// the foreign instance lives in the ASG of the other configured group, the Node carries g1's label
				n := hh.W.AddNode(as[1], sim.NodeOpt{Age: 50 * Q, TaintAge: dp(5 * Q)})
				n.Labels[g1.Opts.LabelKey] = g1.Opts.LabelValue
				return
			}
			hh.W.AddNode(other, sim.NodeOpt{Age: 50 * Q, TaintAge: dp(5 * Q)})
		}
		if foreignFirst {
			addForeign()
		}
		n := hh.W.AddNode(as[0], sim.NodeOpt{Age: 20 * Q})
		hh.W.AddPod(podOn(g1, n.Name, 500))
		hh.W.AddNode(as[0], sim.NodeOpt{Age: 21 * Q, TaintAge: dp(5 * Q)})
		if !foreignFirst {
			addForeign()
		}
		// g2 is idle and scales down on its own
		m := hh.W.AddNode(as[1], sim.NodeOpt{Age: 30 * Q})
		hh.W.AddPod(podOn(g2, m.Name, 100))
		hh.W.AddNode(as[1], sim.NodeOpt{Age: 31 * Q})
		hh.W.AddNode(as[1], sim.NodeOpt{Age: 32 * Q, TaintAge: dp(5 * Q)})
	}
	return s
}

// RemovalProtocol checks, along histories: decrement on every terminate, the cloud batch fully
// accepted before any Kubernetes delete, the minimum pre-check, and what the not-in-group stop does.
type RemovalProtocol struct{ lock lockTracker }

func (m *RemovalProtocol) Key() string { return m.lock.key() }
func (m *RemovalProtocol) AfterScan(ctx *h.ScanCtx) []h.Violation {
	var out []h.Violation
	if m.lock.a == nil || ctx.Fresh {
		m.lock.reset()
	}
	m.lock.now = ctx.Start
	defer m.lock.observe(ctx)
	add := func(sig, msg string) {
		out = append(out, h.Violation{Prop: "C19", Sig: sig, Msg: fmt.Sprintf("scan %d: %s", ctx.Scan, msg)})
	}
	// batches: a run of terminates followed by a run of deletes
	var run []sim.Entry
	flushable := false
	var batchTerms []sim.Entry
	for _, e := range ctx.Entries {
		switch e.Op {
		case sim.OpTerminate:
			if !e.Dec {
				add("C19/no-decrement", "terminate("+e.Target+") without ShouldDecrementDesiredCapacity")
			}
			if e.Err == "belowmin" {
				add("C19/min-precheck-missing", "a terminate call was refused by the cloud for breaching the group minimum: the request was not refused up front")
			}
			// a batch ends at the first Kubernetes delete or at a failed terminate (the request stops there)
			if flushable || (len(batchTerms) > 0 && batchTerms[len(batchTerms)-1].Err != "") {
				batchTerms, flushable = nil, false
			}
			batchTerms = append(batchTerms, e)
			run = append(run, e)
		case sim.OpK8sDelete:
			flushable = true
			ok := false
			allOK := true
			for _, t := range batchTerms {
				if t.Err != "" {
					allOK = false
				}
				if _, n := ctx.NodeOfInstance(t.Target); n != nil && n.Name == e.Target && t.Err == "" {
					ok = true
				}
			}
			ctx.H.Cov["c19.k8s-deletes-checked"]++
			if !ok {
				add("C19/k8s-delete-without-cloud-termination", "node "+e.Target+" deleted from Kubernetes without a preceding successful termination of its instance in the same batch")
			} else if !allOK {
				add("C19/k8s-delete-after-failed-batch", "node "+e.Target+" deleted from Kubernetes although a termination of the same batch failed")
			}
		}
	}
	_ = run
	// the nodes due in a scan form ONE request: refused as a whole when it would breach the cloud
	// minimum, and no Node object is deleted before the cloud accepted the termination of every one of
	// them. Evaluated where the grace-period reaper is certain to run on exactly the due nodes of the
	// view (no force-tainted node, all members); injected failures may hit removal calls only.
	onlyRemovalFaults := true
	for _, e := range ctx.Entries {
		if e.Err == "injected" && e.Op != sim.OpTerminate && e.Op != sim.OpK8sDelete {
			onlyRemovalFaults = false
		}
	}
	if onlyRemovalFaults && ctx.Res.Panic == nil && !ctx.Res.Killed && !ctx.Res.Exit && ctx.Res.Err == nil {
		for _, g := range ctx.Groups {
			if g.Dry || len(g.F) > 0 || len(g.Nodes) < g.Min || len(g.Nodes) > g.Max || len(g.U) < g.Min || m.lock.inWindow(g, ctx.Start) {
				continue
			}
			dec := ref.Decide(g, ctx.Start)
			if dec.Starve || dec.MaxAge || dec.Edge != "" || (dec.Class != "fast" && dec.Class != "slow" && dec.Class != "idle") {
				continue
			}
			a := ctx.H.W.FindASG(g.ASGName)
			if a == nil {
				continue
			}
			member := map[string]bool{}
			for _, in := range a.Instances {
				member[sim.ProviderID(in.AZ, in.ID)] = true
			}
			for _, e := range ctx.Entries {
				if e.Op == sim.OpTerminate && e.Err == "" {
					if _, n := ctx.NodeOfInstance(e.Target); n != nil {
						member[n.Spec.ProviderID] = true
					}
				}
			}
			soft, hard := softOf(g.Spec), hardOf(g.Spec)
			due, allMembers := 0, true
			for _, n := range g.T {
				tt, readable := h.TaintTime(n)
				age := ctx.Start.Sub(tt)
				if readable && n.Annotations[h.NoDeleteKey] == "" && (age > hard || (age > soft && g.PodsOn[n.Name] == 0)) {
					due++
					if !member[n.Spec.ProviderID] {
						allMembers = false
					}
				}
			}
			if due == 0 || !allMembers {
				continue
			}
			ctx.H.Cov["c19.whole-batch-scans"]++
			writes := ctx.WritesFor(g)
			if g.CloudDesired-int64(due) < g.CloudMin || g.CloudDesired <= g.CloudMin {
				for _, e := range writes {
					if e.Op == sim.OpTerminate && e.Err == "" {
						add("C19/partial-removal-of-a-refused-request", fmt.Sprintf("group %s: %d nodes are due, desired %d - %d < cloud minimum %d: the whole request must be refused, but %s was terminated", g.Name, due, g.CloudDesired, due, g.CloudMin, e.Target))
						break
					}
				}
				continue
			}
			attempts, failed := 0, false
			for _, e := range writes {
				if e.Op == sim.OpTerminate {
					attempts++
					failed = failed || e.Err != ""
				}
				if e.Op == sim.OpK8sDelete {
					if attempts < due && !failed {
						add("C19/k8s-delete-before-whole-request-accepted", fmt.Sprintf("group %s: %d nodes are due in this scan, but node %s was deleted from Kubernetes after only %d terminations had been requested", g.Name, due, e.Target, attempts))
					}
					break
				}
			}
		}
	}
	// a node that escalator selects for removal and that is not a member of its group's ASG must
	// stop the controller with the not-in-group error (fault-free scans, no minimum in the way)
	if !ctx.Faulted && ctx.Res.Panic == nil && !ctx.Res.Killed && !ctx.Res.Exit {
		for _, g := range ctx.Groups {
			if g.Dry || g.CloudMin != 0 || len(g.Nodes) < g.Min || len(g.Nodes) > g.Max || len(g.U) < g.Min || m.lock.inWindow(g, ctx.Start) {
				continue
			}
			a := ctx.H.W.FindASG(g.ASGName)
			if a == nil {
				continue
			}
			member := map[string]bool{}
			for _, in := range a.Instances {
				member[sim.ProviderID(in.AZ, in.ID)] = true
			}
			// instances terminated during this scan were members when the scan began
			for _, e := range ctx.Entries {
				if e.Op == sim.OpTerminate && e.Err == "" {
					if _, n := ctx.NodeOfInstance(e.Target); n != nil {
						member[n.Spec.ProviderID] = true
					}
				}
			}
			dec := ref.Decide(g, ctx.Start)
			d := dec.Class
			if dec.Starve || dec.MaxAge || dec.Edge != "" {
				d = "up" // a trigger (or an undecided edge) may turn the scan into a scale-up: only the force reaper is certain to run
			}
			soft, hard := softOf(g.Spec), hardOf(g.Spec)
			// batch sizes of the two reapers (the provider refuses a whole batch that would breach the
			// cloud minimum before it looks at membership)
			batch := map[string]int{}
			for _, n := range g.Nodes {
				if n.Spec.Unschedulable {
					continue
				}
				_, force := h.HasTaint(n, h.ForceTaintKey)
				tt, readable := h.TaintTime(n)
				age := ctx.Start.Sub(tt)
				switch {
				case force && g.PodsOn[n.Name] == 0:
					batch["force-reaper"]++
				case !force && readable && n.Annotations[h.NoDeleteKey] == "" && (age > hard || (age > soft && g.PodsOn[n.Name] == 0)):
					batch["grace-reaper"]++
				}
			}
			for _, n := range g.Nodes {
				if n.Spec.Unschedulable || member[n.Spec.ProviderID] {
					continue
				}
				_, force := h.HasTaint(n, h.ForceTaintKey)
				tt, readable := h.TaintTime(n)
				age := ctx.Start.Sub(tt)
				pods := g.PodsOn[n.Name]
				selected := false
				path := "grace-reaper"
				switch {
				case force && pods == 0:
					path = "force-reaper"
					selected = d == "fast" || d == "slow" || d == "idle" || d == "up"
				case !force && readable && n.Annotations[h.NoDeleteKey] == "" && (age > hard || (age > soft && pods == 0)):
					selected = d == "fast" || d == "slow" || d == "idle"
				}
				if !selected {
					continue
				}
				desired := g.CloudDesired
				if path == "grace-reaper" {
					desired -= int64(batch["force-reaper"]) // at most: the force reaper ran first
				}
				if desired-int64(batch[path]) < g.CloudMin || desired <= g.CloudMin || (path == "grace-reaper" && batch["force-reaper"] > 0) {
					continue // the minimum pre-check may legitimately refuse the batch first
				}
				ctx.H.Cov["c19.non-member-selected-for-removal"]++
				if _, ok := ctx.Res.Err.(*cloudprovider.NodeNotInNodeGroup); !ok {
					add("C19/not-in-group-not-fatal/"+path, fmt.Sprintf("node %s of group %s is due for removal and is not a member of %s, but the scan returned %v instead of the not-in-group error", n.Name, g.Name, g.ASGName, ctx.Res.Err))
				}
				break
			}
		}
	}
	if ne, ok := ctx.Res.Err.(*cloudprovider.NodeNotInNodeGroup); ok {
		ctx.H.Cov["c19.not-in-group-stops"]++
		g, n := ctx.GroupOfNode(ne.NodeName)
		if g != nil && n != nil {
			if a := ctx.H.W.FindASG(g.ASGName); a != nil {
				for _, in := range a.Instances {
					if sim.ProviderID(in.AZ, in.ID) == n.Spec.ProviderID {
						// membership is judged on the provider's snapshot taken at the start of the scan; an
						// instance that is a member now was a member then unless it was attached mid-scan
						add("C19/not-in-group-for-member", "not-in-group error for node "+ne.NodeName+" whose instance is a member of "+g.ASGName)
					}
				}
			}
			// no later group may have been processed
			idx := -1
			for i, gg := range ctx.Groups {
				if gg == g {
					idx = i
				}
			}
			for _, e := range ctx.Entries {
				if e.Phase != "group" {
					continue
				}
				for i, gg := range ctx.Groups {
					if gg.Name == e.Group && i > idx {
						add("C19/continued-after-not-in-group", "group "+gg.Name+" was processed after the not-in-group condition in group "+g.Name)
						return out
					}
				}
			}
		}
	}
	return out
}

func C19Scenarios(tier string) []*h.Scenario {
	var out []*h.Scenario
	for _, s := range C01Scenarios(tier) {
		if s.FaultOps == nil {
			continue
		}
		s.Name = "c19." + s.Name
		s.FaultOps = map[string]bool{sim.OpTerminate: true, sim.OpK8sDelete: true}
		s.KillOps = nil
		out = append(out, s)
	}
	for _, ff := range []bool{true, false} {
		s := c19Scenario(fmt.Sprintf("c19.foreign-first-%v", ff), ff)
		g1 := s.Groups[0]
		s.Events = func(hh *h.Hist, slot int) []h.Event {
			var ev []h.Event
			for _, n := range groupNodes(hh, g1, 3) {
				ev = append(ev, evExtTaint(n.Name, "now-5q"), evExtUntaint(n.Name), evCordon(n.Name, !n.Spec.Unschedulable), evAnnotate(n.Name, "x"))
			}
			return append(ev, evRestart())
		}
		s.FaultOps = map[string]bool{sim.OpTerminate: true, sim.OpK8sDelete: true}
		out = append(out, s)
	}
	{
		s := c19Scenario("c19.foreign-in-registered-asg", false)
		s.Slots = 4
		s.Events = func(hh *h.Hist, slot int) []h.Event { return []h.Event{evRestart()} }
		out = append(out, s)
	}
	// two removal batches in one scan (force-tainted, then expired) against a tight cloud minimum,
	// with every terminate failing: the second batch must be judged on what the first really did
	{
		g := StdGroup("g1")
		g.Opts.MinNodes = 0
		g.ASG.Min = 2
		s := &h.Scenario{Name: "c19.two-batches", Groups: []h.GroupSpec{g}, Slots: 4, Quantum: Q, MaxEventsPerSlot: 1,
			FaultOps: map[string]bool{sim.OpTerminate: true}}
		s.Init = func(hh *h.Hist) {
			a := InitASGs(hh)[0]
			n := hh.W.AddNode(a, sim.NodeOpt{Age: 20 * Q})
			hh.W.AddPod(podOn(g, n.Name, 500))
			hh.W.AddNode(a, sim.NodeOpt{Age: 21 * Q, ForceTaint: true})
			hh.W.AddNode(a, sim.NodeOpt{Age: 22 * Q, ForceTaint: true})
			hh.W.AddNode(a, sim.NodeOpt{Age: 23 * Q, TaintAge: dp(5 * Q)})
			hh.W.AddNode(a, sim.NodeOpt{Age: 24 * Q, TaintAge: dp(6 * Q)})
		}
		s.Events = func(hh *h.Hist, slot int) []h.Event {
			return []h.Event{evASGEdit(g.ASG.Name, 1, 8), evASGEdit(g.ASG.Name, 3, 8), evRestart()}
		}
		out = append(out, s)
	}
	// a tight cloud minimum: batches that would breach it must be refused up front
	{
		g := StdGroup("g1")
		g.Opts.MinNodes = 0
		g.ASG.Min = 3
		s := &h.Scenario{Name: "c19.tight-minimum", Groups: []h.GroupSpec{g}, Slots: 5, Quantum: Q, MaxEventsPerSlot: 2}
		s.Init = func(hh *h.Hist) {
			a := InitASGs(hh)[0]
			n := hh.W.AddNode(a, sim.NodeOpt{Age: 20 * Q})
			hh.W.AddPod(podOn(g, n.Name, 500))
			for i := 0; i < 3; i++ {
				hh.W.AddNode(a, sim.NodeOpt{Age: time.Duration(21+i) * Q, TaintAge: dp(time.Duration(i+1) * Q)})
			}
		}
		s.Events = func(hh *h.Hist, slot int) []h.Event {
			return []h.Event{evASGEdit(g.ASG.Name, 2, 8), evASGEdit(g.ASG.Name, 1, 8), evASGEdit(g.ASG.Name, 4, 8), evRestart()}
		}
		out = append(out, s)
	}
	// the provider is rebuilt (a refresh fails) after the first removal, then the operator raises the
	// cloud minimum: later removals are judged on the cloud group as refreshed, not as first seen
	{
		g := StdGroup("g1")
		g.Opts.MinNodes = 0
		s := &h.Scenario{Name: "c19.rebuild-then-minimum-raised", Groups: []h.GroupSpec{g}, Slots: 6, Quantum: Q, MaxEventsPerSlot: 1}
		s.Init = func(hh *h.Hist) {
			a := InitASGs(hh)[0]
			n := hh.W.AddNode(a, sim.NodeOpt{Age: 20 * Q})
			hh.W.AddPod(podOn(g, n.Name, 500))
			// one node is due at once (the first removal), the other two only three scans later
			hh.W.AddNode(a, sim.NodeOpt{Age: 21 * Q, TaintAge: dp(3 * Q)})
			hh.W.AddNode(a, sim.NodeOpt{Age: 22 * Q, TaintAge: dp(0)})
			hh.W.AddNode(a, sim.NodeOpt{Age: 23 * Q, TaintAge: dp(0)})
		}
		s.Events = func(hh *h.Hist, slot int) []h.Event {
			return []h.Event{evRefreshFails(), evASGEdit(g.ASG.Name, 3, 8), evASGEdit(g.ASG.Name, 2, 8), evRestart()}
		}
		out = append(out, s)
	}
	// a dozen nodes due in one scan: the batch is one request (refused as a whole when it would breach
	// the cloud minimum; no Node object deleted before the cloud accepted every termination)
	for _, min := range []int64{0, 2} {
		g := StdGroup("g1")
		g.Opts.MinNodes = 0
		g.Opts.MaxNodes, g.ASG.Max = 14, 14
		g.ASG.Min = min
		s := &h.Scenario{Name: fmt.Sprintf("c19.twelve-due.min%d", min), Groups: []h.GroupSpec{g}, Slots: 3, Quantum: Q, MaxEventsPerSlot: 1, BoundCap: 1,
			FaultOps: map[string]bool{sim.OpTerminate: true, sim.OpK8sDelete: true}}
		s.Init = func(hh *h.Hist) {
			a := InitASGs(hh)[0]
			for i := 0; i < 12; i++ {
				hh.W.AddNode(a, sim.NodeOpt{Age: time.Duration(40+i) * Q, TaintAge: dp(5 * Q)})
			}
			if min == 0 {
				n := hh.W.AddNode(a, sim.NodeOpt{Age: 20 * Q})
				hh.W.AddPod(podOn(g, n.Name, 500))
			}
		}
		s.Events = func(hh *h.Hist, slot int) []h.Event { return []h.Event{evRestart()} }
		out = append(out, s)
	}
	// the ASG replaces an instance (same count, same desired capacity): the new node is a member
	{
		g := StdGroup("g1")
		g.Opts.MinNodes = 0
		s := &h.Scenario{Name: "c19.instance-replaced", Groups: []h.GroupSpec{g}, Slots: 6, Quantum: Q, MaxEventsPerSlot: 1}
		s.Init = func(hh *h.Hist) {
			a := InitASGs(hh)[0]
			hh.W.AddNode(a, sim.NodeOpt{Age: 20 * Q})
			hh.W.AddNode(a, sim.NodeOpt{Age: 21 * Q})
		}
		s.Events = func(hh *h.Hist, slot int) []h.Event {
			var ev []h.Event
			for _, n := range groupNodes(hh, g, 2) {
				ev = append(ev, evReplaceInstance(n.Name, false), evReplaceInstance(n.Name, true))
			}
			return append(ev, evRestart())
		}
		out = append(out, s)
	}
	return out
}

func init() {
	register(&Check{
		ID:    "C19",
		Level: "model_checking",
		Rule: "provider grid: ASG min 0..3 x desired 0..5 x every sequence of 1..3 nodes drawn from {three members, a node of another ASG, a node with an unknown instance, a malformed provider id} x the k-th terminate call failing for every k, on the real NodeGroup.DeleteNodes; RunForever returns the not-in-group error; " +
			"histories (deviation-bounded DFS): the C01 worlds with every terminate / Kubernetes delete call failing, two-group worlds holding a non-member node eligible for removal, two removal batches in one scan against a tight cloud minimum, and a tight cloud minimum edited at run time; non-trivial = every grid case and every scan that removed a node; distinct by parameters / (slot, class, node)",
		Grid:      c19Grid,
		Scenarios: C19Scenarios,
		Monitors:  func() []h.Monitor { return []h.Monitor{&RemovalProtocol{}, &NearMiss{Seen: map[string]struct{}{}}} },
		Bound: func(tier string) int {
			if tier == "thorough" {
				return 3
			}
			return 2
		},
		Prune:       true,
		Nontrivial:  seenKeys,
		Assumptions: commonAssumptions,
		Alphabet:    []string{"provider grid", "C01 alphabet", "fail at TerminateInstanceInAutoScalingGroup / DELETE node", "asg-edit(min)"},
	})
}
