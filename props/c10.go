package props

import (
	"fmt"
	"reflect"
	"strings"
	"testing"
	"time"

	v1 "k8s.io/api/core/v1"

	"verif/h"
	"verif/ref"
	"verif/sim"
)

// ---------------------------------------------------------------------------------------------
// C10 — the no-delete annotation protects from removal, and from nothing else

// LikeAnyOther re-labels, for scans whose view holds a protected (annotated) node, every
// disagreement between the scan and the reference decision — which knows nothing about the
// annotation — as a C10 violation: a protected node counts, is tainted and is untainted like any
// other node, however long it has been tainted.
type LikeAnyOther struct{ D *Decisions }

func (m LikeAnyOther) Key() string { return m.D.Key() }
func (m LikeAnyOther) AfterScan(ctx *h.ScanCtx) []h.Violation {
	var out []h.Violation
	inner := m.D.AfterScan(ctx)
	protected := false
	for _, g := range ctx.Groups {
		for _, n := range g.Nodes {
			if _, f := h.HasTaint(n, h.ForceTaintKey); !f && n.Annotations[h.NoDeleteKey] != "" {
				protected = true
			}
		}
	}
	if !protected {
		return nil
	}
	ctx.H.Cov["c10.scans-with-protected-node"]++
	for _, v := range inner {
		if strings.Contains(v.Sig, "float-equality") {
			continue
		}
		out = append(out, h.Violation{Prop: "C10", Sig: "C10/not-like-any-other-node/" + v.Sig, Msg: v.Msg + " (the reference decision ignores the no-delete annotation)"})
	}
	return out
}

// HeldBack: a protected node "does not hold back the removal of other eligible nodes". In a fault-free,
// unlocked scan whose reference decision is a scale-down or no action (the scans in which the
// grace-period reaper is certain to run), with a protected tainted node in the view, every unprotected
// tainted node that is past its grace period (soft and empty, or hard) must be terminated, provided
// the batch of all such nodes fits above the cloud minimum.
type HeldBack struct{ lock lockTracker }

func (m *HeldBack) Key() string { return m.lock.key() }
func (m *HeldBack) AfterScan(ctx *h.ScanCtx) []h.Violation {
	var out []h.Violation
	if m.lock.a == nil || ctx.Fresh {
		m.lock.reset()
	}
	m.lock.now = ctx.Start
	defer m.lock.observe(ctx)
	clean := ctx.Res.Err == nil && ctx.Res.Panic == nil && !ctx.Res.Killed && !ctx.Res.Exit && !ctx.Res.Hang
	if !clean || ctx.Faulted {
		return nil
	}
	for _, g := range ctx.Groups {
		if g.Dry || m.lock.inWindow(g, ctx.Start) || len(g.F) > 0 {
			continue
		}
		dec := ref.Decide(g, ctx.Start)
		if dec.Starve || dec.MaxAge || dec.Edge != "" || (dec.Class != "fast" && dec.Class != "slow" && dec.Class != "idle") {
			continue
		}
		a := ctx.H.W.FindASG(g.ASGName)
		if a == nil {
			continue
		}
		soft, hard := softOf(g.Spec), hardOf(g.Spec)
		protected := 0
		var eligible []*v1.Node
		for _, n := range g.T {
			tt, readable := h.TaintTime(n)
			age := ctx.Start.Sub(tt)
			if n.Annotations[h.NoDeleteKey] != "" {
				protected++
				continue
			}
			if readable && (age > hard || (age > soft && g.PodsOn[n.Name] == 0)) {
				eligible = append(eligible, n)
			}
		}
		if protected == 0 || len(eligible) == 0 || g.CloudDesired-int64(len(eligible)) < g.CloudMin {
			continue
		}
		ctx.H.Cov["c10.eligible-next-to-protected"]++
		terminated := map[string]bool{}
		for _, e := range ctx.Entries {
			if e.Op == sim.OpTerminate && e.Err == "" {
				if _, n := ctx.NodeOfInstance(e.Target); n != nil {
					terminated[n.Name] = true
				}
			}
		}
		for _, n := range eligible {
			if !terminated[n.Name] {
				out = append(out, h.Violation{Prop: "C10", Sig: "C10/eligible-node-held-back",
					Msg: fmt.Sprintf("scan %d: group %s (%s) holds %d protected tainted node(s); %s is unprotected, past its grace period and removable (desired %d - %d eligible >= cloud minimum %d) but was not terminated", ctx.Scan, g.Name, dec.Class, protected, n.Name, g.CloudDesired, len(eligible), g.CloudMin)})
				break
			}
		}
	}
	return out
}

func c10Scenario(name string, strip bool, minNodes int, world string) *h.Scenario {
	g := StdGroup("g1")
	g.Opts.MinNodes = minNodes
	ann := func(v string) string {
		if strip {
			return ""
		}
		return v
	}
	s := &h.Scenario{Name: name, Groups: []h.GroupSpec{g}, Slots: 9, Quantum: Q, MaxEventsPerSlot: 2, Lenient: strip}
	s.Init = func(hh *h.Hist) {
		a := InitASGs(hh)[0]
		switch world {
		case "expired":
			n1 := hh.W.AddNode(a, sim.NodeOpt{Age: 20 * Q})
			hh.W.AddPod(podOn(g, n1.Name, 500))
			n2 := hh.W.AddNode(a, sim.NodeOpt{Age: 19 * Q, TaintAge: dp(1 * Q), Annotation: ann("keep")})
			hh.W.AddPod(podOn(g, n2.Name, 200))
			hh.W.AddNode(a, sim.NodeOpt{Age: 18 * Q, TaintAge: dp(3 * Q)})
			hh.W.AddNode(a, sim.NodeOpt{Age: 17 * Q, TaintAge: dp(3 * Q), Annotation: ann("false")})
			hh.W.AddNode(a, sim.NodeOpt{Age: 16 * Q})
		case "fresh":
			n1 := hh.W.AddNode(a, sim.NodeOpt{Age: 20 * Q})
			hh.W.AddPod(podOn(g, n1.Name, 500))
			n2 := hh.W.AddNode(a, sim.NodeOpt{Age: 19 * Q, TaintAge: dp(0), Annotation: ann("keep")})
			hh.W.AddPod(podOn(g, n2.Name, 200))
			hh.W.AddNode(a, sim.NodeOpt{Age: 18 * Q, TaintAge: dp(0)})
			hh.W.AddNode(a, sim.NodeOpt{Age: 17 * Q, TaintAge: dp(1 * Q), Annotation: ann("keep")})
			hh.W.AddNode(a, sim.NodeOpt{Age: 16 * Q})
		case "tight-room":
			// the cloud group can lose exactly one node; the protected node has been tainted longest
			n1 := hh.W.AddNode(a, sim.NodeOpt{Age: 20 * Q})
			hh.W.AddPod(podOn(g, n1.Name, 500))
			hh.W.AddNode(a, sim.NodeOpt{Age: 19 * Q, TaintAge: dp(5 * Q), Annotation: ann("keep")})
			hh.W.AddNode(a, sim.NodeOpt{Age: 18 * Q, TaintAge: dp(3 * Q)})
			hh.W.AddNode(a, sim.NodeOpt{Age: 17 * Q})
			a.Min = a.Desired - 1
		case "idle":
			// nothing tainted or annotated yet: the group is nearly idle and escalator taints on its own
			n1 := hh.W.AddNode(a, sim.NodeOpt{Age: 20 * Q, Annotation: ann("keep")})
			hh.W.AddPod(podOn(g, n1.Name, 100))
			for i := 0; i < 4; i++ {
				hh.W.AddNode(a, sim.NodeOpt{Age: time.Duration(19-i) * Q})
			}
		}
	}
	names := initialNames(g.ASG.Name, 4)
	s.Events = func(hh *h.Hist, slot int) []h.Event {
		var ev []h.Event
		for _, n := range names {
			for _, v := range []string{"x", "false", "", "<remove>"} {
				e := evAnnotate(n, v)
				if strip {
					e.Apply = func(*h.Hist) {}
				}
				ev = append(ev, e)
			}
			ev = append(ev, evPodStart(g, n, 200), evPodFinish(g, n), evExtTaint(n, "now-3q"), evExtTaint(n, "now-5q"), evForceTaint(n))
		}
		ev = append(ev, evBurst(g, 3, 1000), evClearPending(g), evClearAllPods(g), evRestart())
		return ev
	}
	return s
}

func c10Twin(twin *h.Scenario) func(t *testing.T, s *h.Scenario, hh *h.Hist, choices []int) {
	return func(t *testing.T, s *h.Scenario, hh *h.Hist, choices []int) {
		tw := h.RunTwin(t, twin, choices)
		for i := range hh.Summaries {
			if i >= len(tw.Summaries) {
				break
			}
			o, w := hh.Summaries[i], tw.Summaries[i]
			if o.Fatal || w.Fatal {
				break
			}
			if !reflect.DeepEqual(o.NonRem, w.NonRem) {
				hh.Viol = append(hh.Viol, h.Violation{Prop: "C10", Sig: "C10/twin/non-removal-actions-differ",
					Msg: fmt.Sprintf("scan %d: taint/untaint/cloud actions %v differ from %v in the same history without annotations", o.Scan, o.NonRem, w.NonRem)})
				break
			}
			// the twin's removals minus the protected nodes must be exactly the original's removals
			exp := map[string][]string{}
			stripped := false
			for g, rs := range w.Removed {
				for _, r := range rs {
					node := strings.SplitN(strings.SplitN(r, ":", 2)[1], "!", 2)[0]
					if o.Protected[node] {
						stripped = true
						continue
					}
					exp[g] = append(exp[g], r)
				}
			}
			got := map[string][]string{}
			for g, rs := range o.Removed {
				if len(rs) > 0 {
					got[g] = rs
				}
			}
			if !reflect.DeepEqual(got, exp) {
				hh.Viol = append(hh.Viol, h.Violation{Prop: "C10", Sig: "C10/twin/removals-differ-beyond-annotated",
					Msg: fmt.Sprintf("scan %d: removed %v; without annotations %v; protected nodes %v", o.Scan, o.Removed, w.Removed, keysOf(o.Protected))})
				break
			}
			hh.Cov["c10.scans-compared"]++
			if stripped {
				// from here on the two worlds legitimately differ (the twin lost a node)
				hh.Cov["c10.protected-node-outlived-twin"]++
				break
			}
		}
	}
}

func keysOf(m map[string]bool) []string {
	var out []string
	for k := range m {
		out = append(out, k)
	}
	return out
}

func C10Scenarios(tier string) []*h.Scenario {
	var out []*h.Scenario
	for _, world := range []string{"expired", "fresh", "idle"} {
		for _, min := range []int{1, 0} {
			if min == 0 && world != "fresh" {
				continue
			}
			s := c10Scenario(fmt.Sprintf("c10.%s.min%d", world, min), false, min, world)
			s.Twin = c10Twin(c10Scenario(fmt.Sprintf("c10.%s.min%d.twin", world, min), true, min, world))
			out = append(out, s)
		}
	}
	// non-default options that must not change how a protected node is treated: taint_effect NoExecute
	// and max_node_age (no node is over age)
	for _, world := range []string{"idle", "expired"} {
		mk := func(strip bool, suffix string) *h.Scenario {
			s := c10Scenario("c10."+world+".noexecute-maxage"+suffix, strip, 1, world)
			s.Groups[0].Opts.TaintEffect = "NoExecute"
			s.Groups[0].Opts.MaxNodeAge = "12h"
			s.Slots = 6
			return s
		}
		s := mk(false, "")
		s.Twin = c10Twin(mk(true, ".twin"))
		out = append(out, s)
	}
	// the cloud group has room for exactly one removal and the protected node is the longest tainted;
	// and the "expired" world with max_nodes below the node count (every scan takes the over-maximum exit)
	{
		s := c10Scenario("c10.tight-room", false, 1, "tight-room")
		s.Slots = 6
		out = append(out, s)
		o := c10Scenario("c10.expired.over-max", false, 1, "expired")
		o.Groups[0].Opts.MaxNodes = 4
		o.Slots = 5
		o.Prune = true
		out = append(out, o)
	}
	// a protected, tainted, empty node that is also cordoned: cordoned nodes are left alone, protected ones
	// are never removed
	{
		s := c10Scenario("c10.expired.protected-node-cordoned", false, 1, "expired")
		s.Slots = 5
		inner := s.Init
		s.Init = func(hh *h.Hist) {
			inner(hh)
			for _, n := range hh.W.Nodes {
				if _, t := h.HasTaint(n, h.TaintKey); t && n.Annotations[h.NoDeleteKey] != "" {
					n.Spec.Unschedulable = true
				}
			}
		}
		out = append(out, s)
	}
	// a spot group holding a protected tainted node whose instance is no longer listed by the ASG (an
	// operator detached it for debugging): the annotation protects it there too
	{
		s := c10Scenario("c10.spot-detached", false, 1, "expired")
		s.Groups[0].Opts.AWS.Lifecycle = "spot"
		s.Slots = 5
		inner := s.Init
		g0 := s.Groups[0]
		s.Init = func(hh *h.Hist) {
			inner(hh)
			other := hh.W.AddASG(sim.ASG{Name: "asg-detached", Min: 0, Max: 5, LabelKey: g0.Opts.LabelKey, LabelValue: g0.Opts.LabelValue})
			hh.W.AddNode(other, sim.NodeOpt{Age: 50 * Q, TaintAge: dp(6 * Q), Annotation: "debugging"})
		}
		out = append(out, s)
	}
	// a removal call fails in one scan and the node is annotated before the next one
	for _, world := range []string{"expired", "fresh"} {
		s := c10Scenario("c10."+world+".removal-fault-then-annotate", false, 1, world)
		s.Slots = 6
		s.MaxEventsPerSlot = 1
		s.Prune = true
		s.BoundCap = 2
		inner := s.Events
		s.Events = func(hh *h.Hist, slot int) []h.Event {
			var ev []h.Event
			for _, e := range inner(hh, slot) {
				if strings.HasPrefix(e.Label, "annotate(") && strings.HasSuffix(e.Label, ",x)") {
					ev = append(ev, e)
				}
			}
			return ev
		}
		s.FaultOps = map[string]bool{sim.OpK8sDelete: true, sim.OpTerminate: true}
		out = append(out, s)
	}
	// API failures while annotated nodes are eligible for reaping (safety predicate only: a twin
	// would not meet the same fault points)
	for _, world := range []string{"expired", "fresh"} {
		s := c10Scenario("c10."+world+".faults", false, 1, world)
		s.MaxEventsPerSlot = 1
		s.Prune = true
		s.BoundCap = 1
		if tier == "thorough" {
			s.BoundCap = 2
		}
		s.FaultOps = map[string]bool{sim.OpK8sGet: true, sim.OpK8sUpdate: true, sim.OpK8sDelete: true, sim.OpTerminate: true, sim.OpListPods: true, sim.OpListNodes: true}
		out = append(out, s)
	}
	return out
}

func init() {
	register(&Check{
		ID:    "C10",
		Level: "model_checking",
		Rule: "deviation-bounded DFS over 9-scan histories with the annotation set (value x or empty) / removed on any node at any slot (before tainting, after tainting, after the hard grace period, removed and re-added), each execution paired with a twin execution of the same choices without annotations; " +
			"non-trivial = scans holding an annotated node past its grace period or one conjunct from removal; distinct = (slot, class, node, pods, age)",
		Scenarios: C10Scenarios,
		Monitors: func() []h.Monitor {
			return []h.Monitor{AnnotationSafety{}, LikeAnyOther{NewDecisions()}, &HeldBack{}, &NearMiss{Seen: map[string]struct{}{}}}
		},
		Bound: func(tier string) int {
			if tier == "thorough" {
				return 3
			}
			return 2
		},
		Nontrivial:  seenKeys,
		Assumptions: commonAssumptions,
		Alphabet:    []string{"annotate(i, x | false | empty | remove)", "pod-start/finish(i)", "ext-taint(i, now-3q | now-5q)", "force-taint(i)", "burst", "clear-pending", "clear-pods", "restart", "fail at k8s get/update/delete, terminate, listers (safety scenarios)"},
	})
}
