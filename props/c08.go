package props

import (
	"fmt"
	"strings"
	"time"

	v1 "k8s.io/api/core/v1"

	"verif/h"
	"verif/sim"
)

// ---------------------------------------------------------------------------------------------
// C08 — scale-down taints the oldest nodes first

// OldestFirst: no node left untainted (and not failed) is strictly older than a tainted one.
type OldestFirst struct{}

func (OldestFirst) Key() string { return "" }
func (OldestFirst) AfterScan(ctx *h.ScanCtx) []h.Violation {
	var out []h.Violation
	for _, g := range ctx.Groups {
		if g.Dry {
			continue
		}
		o := observe(ctx, g)
		tainted := map[string]bool{}
		for _, n := range o.adds {
			tainted[n] = true
		}
		if len(o.adds) > 0 {
			ctx.H.Cov["c08.taint-scans"]++
		}
		for _, a := range o.adds {
			na := nodeByName(g.U, a)
			if na == nil {
				continue
			}
			for _, nb := range g.U {
				if tainted[nb.Name] || o.failedNodes[nb.Name] {
					continue
				}
				if nb.CreationTimestamp.Time.Before(na.CreationTimestamp.Time) {
					out = append(out, h.Violation{Prop: "C08", Sig: "C08/older-node-left-untainted",
						Msg: fmt.Sprintf("scan %d: %s (created %s) was tainted while %s (created %s) is strictly older and stays untainted", ctx.Scan, a, stamp(na.CreationTimestamp.Time), nb.Name, stamp(nb.CreationTimestamp.Time))})
				}
			}
		}
	}
	return out
}

// DryOldestFirst: the same rule for a dry-mode group, whose "tainted" nodes are the ones its taint
// tracker names: the nodes newly tracked in a scan must be the oldest of the untracked, untainted ones.
type DryOldestFirst struct{}

func (DryOldestFirst) Key() string { return "" }
func (DryOldestFirst) AfterScan(ctx *h.ScanCtx) []h.Violation {
	var out []h.Violation
	for _, g := range ctx.Groups {
		if !g.Dry {
			continue
		}
		pre, post := map[string]bool{}, map[string]bool{}
		for _, st := range ctx.Pre {
			if st.Name == g.Name {
				for _, n := range st.TaintTracker {
					pre[n] = true
				}
			}
		}
		for _, st := range ctx.Post {
			if st.Name == g.Name {
				for _, n := range st.TaintTracker {
					post[n] = true
				}
			}
		}
		newly := 0
		for a := range post {
			if pre[a] {
				continue
			}
			newly++
			na := nodeByName(g.U, a)
			if na == nil {
				out = append(out, h.Violation{Prop: "C08", Sig: "C08/dry/tracked-node-not-untainted",
					Msg: fmt.Sprintf("scan %d: dry-mode group %s now tracks %s as tainted, which is not an untainted node of the view", ctx.Scan, g.Name, a)})
				continue
			}
			for _, nb := range g.U {
				if post[nb.Name] {
					continue
				}
				if nb.CreationTimestamp.Time.Before(na.CreationTimestamp.Time) {
					out = append(out, h.Violation{Prop: "C08", Sig: "C08/dry/older-node-left-untainted",
						Msg: fmt.Sprintf("scan %d: dry-mode group %s tracks %s (created %s) as tainted while %s (created %s) is strictly older and stays untracked", ctx.Scan, g.Name, a, stamp(na.CreationTimestamp.Time), nb.Name, stamp(nb.CreationTimestamp.Time))})
				}
			}
		}
		if newly > 0 {
			ctx.H.Cov["c08.dry-taint-scans"]++
		}
	}
	return out
}

func stamp(t time.Time) string {
	if t.IsZero() {
		return "zero"
	}
	return t.UTC().Format("15:04:05")
}

type c08Case struct {
	Times  []int // per node: 0 = zero value, 1..3 = t1 < t2 < t3
	Perm   []int // list order
	K      int   // nodes to taint
	Min    int   // min_nodes (a binding clamp when K > n - Min)
	Annot  bool  // the first listed node carries the no-delete annotation (it can still be tainted)
	Dry    bool  // the group runs in dry mode: tainting is recorded in its taint tracker only
	Big    bool  // Times are ranks 0..n-1 of n distinct creation times (rank 0 = oldest) instead of the four codes
	MaxAge bool  // max_node_age 25m: nodes created at t1 (and the zero value) are over age, t2 / t3 are not
	Busy   bool  // taint_effect NoExecute and the oldest node still runs a pod (it is tainted first all the same)
}

func c08Build(p c08Case) *h.Scenario {
	g := StdGroup("g1")
	g.Opts.MinNodes = p.Min
	g.Opts.FastNodeRemovalRate, g.Opts.SlowNodeRemovalRate = p.K, 0
	g.Opts.DryMode = p.Dry
	if p.Busy {
		g.Opts.TaintEffect = "NoExecute"
	}
	if p.MaxAge {
		g.Opts.MaxNodeAge = "25m"
	}
	if p.Big {
		g.Opts.MaxNodes, g.ASG.Max = 20, 20
	}
	return &h.Scenario{
		Name: fmt.Sprintf("c08.t%v.p%v.k%d.m%d.a%v.d%v.b%v", p.Times, p.Perm, p.K, p.Min, p.Annot, p.Dry, p.Busy) + map[bool]string{true: ".maxage"}[p.MaxAge], CovName: "c08.grid", Groups: []h.GroupSpec{g}, Slots: 1, Quantum: Q,
		FaultOps:         map[string]bool{sim.OpK8sGet: true, sim.OpK8sUpdate: true},
		MaxEventsPerSlot: 1,
		Events: func(hh *h.Hist, slot int) []h.Event {
			var ev []h.Event
			for _, n := range groupNodes(hh, g, 5) {
				ev = append(ev, evRejectNode(n.Name))
			}
			return ev
		},
		Init: func(hh *h.Hist) {
			a := InitASGs(hh)[0]
			for pos, i := range p.Perm {
				tv := p.Times[i]
				o := sim.NodeOpt{Age: time.Duration(40-10*tv) * Q}
				if p.Big {
					o.Age = time.Duration(200-tv) * Q
				}
				if p.Annot && pos == 0 {
					o.Annotation = "keep"
				}
				if tv == 0 && !p.Big {
					o.ZeroCreated = true
				}
				hh.W.AddNode(a, o)
			}
			if p.Busy {
				var oldest *v1.Node
				for _, n := range hh.W.Nodes {
					if oldest == nil || n.CreationTimestamp.Time.Before(oldest.CreationTimestamp.Time) {
						oldest = n
					}
				}
				// small enough to keep the group in the fast band
				hh.W.AddPod(podOn(g, oldest.Name, 10))
			}
		},
	}
}

func perms(n int) [][]int {
	var out [][]int
	var rec func(cur []int, used int)
	rec = func(cur []int, used int) {
		if len(cur) == n {
			out = append(out, append([]int(nil), cur...))
			return
		}
		for i := 0; i < n; i++ {
			if used&(1<<i) == 0 {
				rec(append(cur, i), used|1<<i)
			}
		}
	}
	rec(nil, 0)
	return out
}

// c08MultiScan: an idle group tainted one node per scan over six scans, with the API rejecting a
// node for whole scans (state carried from scan to scan must not change who is oldest).
func c08MultiScan(pattern string) *h.Scenario {
	g := StdGroup("g1")
	g.Opts.MinNodes = 0
	g.Opts.FastNodeRemovalRate, g.Opts.SlowNodeRemovalRate = 1, 1
	g.Opts.SoftDeleteGracePeriod, g.Opts.HardDeleteGracePeriod = dur(30), dur(60)
	if pattern == "recreated" {
		// a node is deleted and a new machine registers under the same name between two scans: it is
		// the youngest node from then on
		return &h.Scenario{Name: "c08.multiscan." + pattern, Groups: []h.GroupSpec{g}, Slots: 5, Quantum: Q, MaxEventsPerSlot: 1, BoundExact: 2,
			Init: func(hh *h.Hist) {
				a := InitASGs(hh)[0]
				for i := 0; i < 4; i++ {
					hh.W.AddNode(a, sim.NodeOpt{Age: time.Duration(40-2*i) * Q})
				}
			},
			Events: func(hh *h.Hist, slot int) []h.Event {
				var ev []h.Event
				for _, n := range groupNodes(hh, g, 4) {
					if _, tainted := h.HasTaint(n, h.TaintKey); !tainted {
						ev = append(ev, evReplaceInstance(n.Name, true), evReplaceInstance(n.Name, false))
					}
				}
				return ev
			},
		}
	}
	if pattern == "down-up-down" {
		// four nodes; a burst of 2200m on three untainted nodes needs exactly one more node (the tainted
		// one is untainted, nothing is bought, no cool-down); then the load goes away again
		return &h.Scenario{Name: "c08.multiscan." + pattern, Groups: []h.GroupSpec{g}, Slots: 6, Quantum: Q, MaxEventsPerSlot: 1, BoundExact: 3,
			Init: func(hh *h.Hist) {
				a := InitASGs(hh)[0]
				for i := 0; i < 4; i++ {
					hh.W.AddNode(a, sim.NodeOpt{Age: time.Duration(40-2*i) * Q})
				}
			},
			Events: func(hh *h.Hist, slot int) []h.Event {
				return []h.Event{evBurst(g, 2, 1100), evClearAllPods(g)}
			},
		}
	}
	return &h.Scenario{Name: "c08.multiscan." + pattern, Groups: []h.GroupSpec{g}, Slots: 6, Quantum: Q, MaxEventsPerSlot: 1, BoundExact: 3,
		Init: func(hh *h.Hist) {
			a := InitASGs(hh)[0]
			for i := 0; i < 6; i++ {
				age := 40 - 2*i
				if pattern == "ties" {
					age = 40 - 4*(i/2)
				}
				hh.W.AddNode(a, sim.NodeOpt{Age: time.Duration(age) * Q})
			}
		},
		Events: func(hh *h.Hist, slot int) []h.Event {
			var ev []h.Event
			for _, n := range groupNodes(hh, g, 3) {
				if _, tainted := h.HasTaint(n, h.TaintKey); !tainted {
					ev = append(ev, evRejectNode(n.Name))
				}
			}
			return ev
		},
	}
}

func C08Scenarios(tier string) []*h.Scenario { return c08Scenarios(tier, 0, 1) }

// c08Scenarios builds the scenarios whose index falls to the given shard (hundreds of thousands of
// tiny scenarios: each worker only materialises its own).
func c08Scenarios(tier string, shard, shards int) []*h.Scenario {
	maxN := 4
	if tier == "thorough" {
		maxN = 5
	}
	idx := -1
	var out []*h.Scenario
	add := func(mk func() *h.Scenario) {
		idx++
		if idx%shards == shard {
			out = append(out, mk())
		}
	}
	add(func() *h.Scenario { return c08MultiScan("distinct") })
	add(func() *h.Scenario { return c08MultiScan("ties") })
	add(func() *h.Scenario { return c08MultiScan("down-up-down") })
	add(func() *h.Scenario { return c08MultiScan("recreated") })
	// large scale-downs: 16 nodes with distinct creation times, 12 or 15 of them tainted in one scan,
	// in structured list orders (strides coprime to 16, evens-then-odds, a perfect shuffle; rotations)
	{
		const n = 16
		var bases [][]int
		for _, stride := range []int{1, 3, 5, 7, 9, 11, 13, 15} {
			b := make([]int, n)
			for i := range b {
				b[i] = (i * stride) % n
			}
			bases = append(bases, b)
		}
		evensOdds, shuffle := make([]int, 0, n), make([]int, 0, n)
		for i := 0; i < n; i += 2 {
			evensOdds = append(evensOdds, i)
		}
		for i := 1; i < n; i += 2 {
			evensOdds = append(evensOdds, i)
		}
		for i := 0; i < n/2; i++ {
			shuffle = append(shuffle, i, i+n/2)
		}
		bases = append(bases, evensOdds, shuffle)
		times := make([]int, n)
		for i := range times {
			times[i] = i
		}
		for _, b := range bases {
			for rot := 0; rot < n; rot += 2 {
				pm := append(append([]int(nil), b[rot:]...), b[:rot]...)
				for _, k := range []int{12, 15} {
					pm, k := pm, k
					add(func() *h.Scenario { return c08Build(c08Case{Times: times, Perm: pm, K: k, Big: true}) })
				}
			}
		}
	}
	for n := 1; n <= maxN; n++ {
		total := 1
		for i := 0; i < n; i++ {
			total *= 4
		}
		for code := 0; code < total; code++ {
			times := make([]int, n)
			c := code
			for i := range times {
				times[i] = c % 4
				c /= 4
			}
			for _, pm := range perms(n) {
				for k := 0; k <= n; k++ {
					times, pm, k := times, pm, k
					add(func() *h.Scenario { return c08Build(c08Case{Times: times, Perm: pm, K: k}) })
					if k == 0 {
						continue
					}
					add(func() *h.Scenario { return c08Build(c08Case{Times: times, Perm: pm, K: k, Dry: true}) })
					if k < n {
						add(func() *h.Scenario { return c08Build(c08Case{Times: times, Perm: pm, K: k, Busy: true}) })
					}
					if n >= 3 && k >= 2 {
						add(func() *h.Scenario { return c08Build(c08Case{Times: times, Perm: pm, K: k, MaxAge: true}) })
					}
					switch {
					case n <= 3 || (tier == "thorough" && n == 4):
						add(func() *h.Scenario { return c08Build(c08Case{Times: times, Perm: pm, K: k, Min: 1}) })
						add(func() *h.Scenario { return c08Build(c08Case{Times: times, Perm: pm, K: k, Annot: true}) })
						if n >= 3 {
							add(func() *h.Scenario { return c08Build(c08Case{Times: times, Perm: pm, K: k, Min: 2, Annot: true}) })
						}
					case k >= 2 && n == 4:
						add(func() *h.Scenario { return c08Build(c08Case{Times: times, Perm: pm, K: k, Min: 1, Annot: true}) })
					}
				}
			}
		}
	}
	return out
}

func init() {
	register(&Check{
		ID:    "C08",
		Level: "model_checking",
		Rule: "every assignment of creation times from {zero value, t1, t2, t3} to 1..4 (5 thorough) untainted nodes x every list order x every taint count 0..n x min_nodes 0..2 (a binding clamp) x the first listed node carrying the no-delete annotation or not, each explored with no fault, with a failure at every single get / update position of the taint loop, and with the API rejecting every call on one node; the same grid for a dry-mode group (the nodes newly named by its taint tracker); six-scan histories (one taint per scan) with a node rejected for up to three whole scans, and with the load arriving and leaving again (taint, untaint, taint); " +
			"non-trivial = scans that tainted at least one node; distinct = (times, order, count, fault position) outcome traces",
		Scenarios:        C08Scenarios,
		ScenariosSharded: c08Scenarios,
		ShardByScenario:  true,
		Monitors:         func() []h.Monitor { return []h.Monitor{OldestFirst{}, DryOldestFirst{}, NewDecisions()} },
		Bound:            func(tier string) int { return 1 },
		Nontrivial: func(hh *h.Hist) []string {
			for _, l := range hh.Trace {
				if strings.Contains(l, "k8s.update") {
					return []string{fmt.Sprint(hh.Trace)}
				}
			}
			return nil
		},
		Assumptions: commonAssumptions,
		Alphabet:    []string{"grid of (creation times, list order, taint count)", "fail at k8s get/update (every position)"},
	})
}
