package props

import (
	"fmt"
	"strings"
	"testing"
	"testing/synctest"
	"time"

	"github.com/atlassian/escalator/pkg/cloudprovider"

	"verif/h"
	"verif/sim"
)

// ---------------------------------------------------------------------------------------------
// C17 — AWS scale-up asks for exactly the delta, within ASG bounds

type c17Case struct {
	Desired, Max int
	D            int64
	Delete       int // nodes removed (DeleteNodes) between Refresh and IncreaseSize
	DeleteFailAt int // k-th terminate call of that removal fails (0 = none); the controller logs the error and goes on
	Fleet        bool
	Lifecycle    string
	Overrides    int
	Subnets      int
	Split        int
	PageSize     int
	Stagger      bool  // every other instance becomes ready one poll later
	AttachFailAt int   // k-th AttachInstances call fails once (throttling-coded error); 0 = none
	Prior        int64 // an earlier, successful scale-up by this many instances on the same provider (0 = none)
	Lower        int64 // after that earlier scale-up somebody else lowers the desired capacity by this much (then a refresh)
}

func c17Run(p c17Case) (entries []sim.Entry, err error, before, after int64, setup error) {
	cfg := cloudprovider.AWSNodeGroupConfig{FleetInstanceReadyTimeout: 4500 * time.Millisecond, Lifecycle: p.Lifecycle}
	if p.Fleet {
		cfg.LaunchTemplateID, cfg.LaunchTemplateVersion = "lt-1", "7"
		for i := 0; i < p.Overrides; i++ {
			cfg.InstanceTypeOverrides = append(cfg.InstanceTypeOverrides, fmt.Sprintf("t%d.large", i+2))
		}
	}
	asg := sim.ASG{Name: "asg-g1", Min: 0, Max: int64(p.Max), Subnets: "subnet-a"}
	if p.Subnets == 2 {
		asg.Subnets = "subnet-a,subnet-b"
	}
	if p.Desired > p.Max {
		asg.Max = int64(p.Desired) // build the instances first, then lower the maximum
	}
	env, e := newProvEnv(asg, p.Desired, cfg)
	if e != nil {
		return nil, nil, 0, 0, e
	}
	env.ASG.Max = int64(p.Max)
	env.W.FleetSplit, env.W.StatusPageSize = p.Split, p.PageSize
	env.W.ReadyStagger = p.Stagger
	if e := env.Prov.Refresh(); e != nil {
		return nil, nil, 0, 0, e
	}
	if p.Delete > 0 {
		if p.DeleteFailAt > 0 {
			env.W.D = newOccDecider().failAt(sim.OpTerminate, p.DeleteFailAt)
		}
		e := env.NG.DeleteNodes(storeNodes(env.W, p.Delete)...)
		env.W.D = nil
		if e != nil && p.DeleteFailAt == 0 {
			return nil, nil, 0, 0, fmt.Errorf("DeleteNodes: %v", e)
		}
	}
	if p.Prior > 0 {
		if e := env.NG.IncreaseSize(p.Prior); e != nil {
			return nil, nil, 0, 0, fmt.Errorf("prior IncreaseSize: %v", e)
		}
		if p.Lower > 0 && env.ASG.Desired-p.Lower >= 0 {
			env.ASG.Desired -= p.Lower
		}
		if e := env.Prov.Refresh(); e != nil {
			return nil, nil, 0, 0, e
		}
	}
	if p.AttachFailAt > 0 {
		env.W.D = newOccDecider().failAt(sim.OpAttach, p.AttachFailAt)
	}
	mark := len(env.W.J)
	before = env.ASG.Desired
	err, _, pan := callProtected(func() error { return env.NG.IncreaseSize(p.D) })
	if pan != nil {
		err = fmt.Errorf("panic: %v", pan)
	}
	return env.W.J[mark:], err, before, env.ASG.Desired, nil
}

func c17Check(c *h.Collector, p c17Case) {
	c.R.Evaluations++
	entries, err, before, after, setup := c17Run(p)
	report := func(sig, msg string) {
		c.Report(h.Found{Violation: h.Violation{Prop: "C17", Sig: sig, Msg: fmt.Sprintf("%+v: %s", p, msg)}, Scenario: "c17.seq", Case: p})
	}
	if setup != nil {
		report("C17/setup", setup.Error())
		return
	}
	var writes []sim.Entry
	for _, e := range entries {
		if e.Write() {
			writes = append(writes, e)
		}
	}
	c.Nontrivial(fmt.Sprintf("%+v", p))
	if after < before {
		report("C17/desired-lowered", fmt.Sprintf("desired capacity went from %d to %d", before, after))
	}
	reject := p.D <= 0 || before+p.D > int64(p.Max)
	if reject {
		c.R.Cov["c17.rejected-cases"]++
		if err == nil {
			report("C17/not-rejected", fmt.Sprintf("delta %d on desired %d / max %d was not rejected", p.D, before, p.Max))
		}
		if len(writes) > 0 {
			report("C17/write-when-rejected", fmt.Sprintf("delta %d on desired %d / max %d issued %s", p.D, before, p.Max, writes[0].Op))
		}
		return
	}
	c.R.Cov["c17.accepted-cases"]++
	if p.AttachFailAt > 0 {
		// an attach call failed: reporting the failure is C18's subject; here only "if the scale-up is
		// reported as done, every acquired instance was attached exactly once"
		if err == nil {
			_, acquired, attached, _ := fleetAlgebra(entries)
			if len(attached) != len(acquired) {
				report("C17/success-with-unattached-instances", fmt.Sprintf("IncreaseSize returned nil although only %d of %d acquired instances were attached", len(attached), len(acquired)))
			}
		}
		return
	}
	if err != nil {
		report("C17/error-on-valid-request", err.Error())
		return
	}
	if !p.Fleet {
		if len(writes) != 1 || writes[0].Op != sim.OpSetDesired {
			report("C17/not-one-setdesired", fmt.Sprintf("expected one SetDesiredCapacity, saw %d writes", len(writes)))
			return
		}
		if writes[0].Val != before+p.D || writes[0].Target != "asg-g1" {
			sig := "C17/wrong-value"
			if p.Delete > 0 && writes[0].Val == before+int64(p.Delete)+p.D {
				sig = "C17/stale-desired-after-delete"
			}
			report(sig, fmt.Sprintf("SetDesiredCapacity(%s, %d) on a real desired capacity of %d with delta %d", writes[0].Target, writes[0].Val, before, p.D))
		}
		return
	}
	// fleet mode
	var fleet *sim.Entry
	nFleet := 0
	for i := range writes {
		switch writes[i].Op {
		case sim.OpCreateFleet:
			fleet = &writes[i]
			nFleet++
		case sim.OpAttach:
			if len(writes[i].IDs) > 20 {
				report("C17/attach-batch>20", fmt.Sprintf("an AttachInstances call carries %d ids", len(writes[i].IDs)))
			}
			if writes[i].Target != "asg-g1" {
				report("C17/attach-wrong-group", "attached to "+writes[i].Target)
			}
		case sim.OpSetDesired, sim.OpTermIns, sim.OpTerminate:
			report("C17/unexpected-write", "fleet scale-up issued "+writes[i].Op)
		}
	}
	if nFleet != 1 {
		report("C17/not-one-createfleet", fmt.Sprintf("%d CreateFleet calls", nFleet))
		return
	}
	lc := p.Lifecycle
	if lc == "" {
		lc = "on-demand"
	}
	minKey := map[string]string{"on-demand": "ondemand.min", "spot": "spot.min"}[lc]
	otherKey := map[string]string{"on-demand": "spot.min", "spot": "ondemand.min"}[lc]
	if fleet.Val != p.D || fleet.Extra[minKey] != fmt.Sprint(p.D) || fleet.Extra["type"] != "instant" || fleet.Extra["lifecycle"] != lc || fleet.Extra["lt"] != "lt-1:7" {
		report("C17/fleet-request-shape", fmt.Sprintf("CreateFleet total=%d %v", fleet.Val, fleet.Extra))
	}
	if _, has := fleet.Extra[otherKey]; has {
		report("C17/fleet-request-shape", fmt.Sprintf("CreateFleet carries the other lifecycle's options: %v", fleet.Extra))
	}
	wantOv := p.Subnets
	if p.Overrides > 0 {
		wantOv = p.Subnets * p.Overrides
	}
	if fleet.Extra["overrides"] != fmt.Sprint(wantOv) {
		report("C17/fleet-overrides", fmt.Sprintf("%s launch template overrides for %d subnets x %d instance types", fleet.Extra["overrides"], p.Subnets, p.Overrides))
	}
	sigs, acquired, attached, _ := fleetAlgebra(entries)
	for _, s := range sigs {
		report("C17/"+s[0][4:], s[1])
	}
	if len(attached) != len(acquired) || int64(len(acquired)) != p.D {
		report("C17/attached-set", fmt.Sprintf("acquired %d, attached %d, delta %d", len(acquired), len(attached), p.D))
	}
	if after != before+p.D {
		report("C17/final-desired", fmt.Sprintf("desired capacity %d after attaching, expected %d", after, before+p.D))
	}
}

func c17Grid(t *testing.T, tier string, shard, shards int, c *h.Collector) {
	synctest.Test(t, func(t *testing.T) {
		idx := 0
		run := func(p c17Case) {
			idx++
			if idx%shards == shard {
				c17Check(c, p)
				if len(c.R.Samples) < 2 && p.Fleet {
					c.R.Samples = append(c.R.Samples, p)
				}
			}
		}
		for desired := 0; desired <= 6; desired++ {
			for max := 0; max <= 7; max++ {
				for d := int64(-1); d <= 8; d++ {
					for del := 0; del <= 3 && del <= desired; del++ {
						run(c17Case{Desired: desired, Max: max, D: d, Delete: del, Split: 1, PageSize: 50, Subnets: 1})
						for f := 1; f <= del; f++ {
							run(c17Case{Desired: desired, Max: max, D: d, Delete: del, DeleteFailAt: f, Split: 1, PageSize: 50, Subnets: 1})
						}
					}
				}
			}
		}
		sizes := []int64{1, 19, 20, 21, 39, 40, 41, 59, 60, 61, 100}
		for _, d := range sizes {
			for _, lc := range []string{"", "on-demand", "spot"} {
				for _, ov := range []int{0, 2} {
					for _, sn := range []int{1, 2} {
						for split := 1; split <= 3; split++ {
							for _, ps := range []int{1, 50} {
								if tier != "thorough" && ps == 1 && d > 41 {
									continue
								}
								for _, desired := range []int{0, 3} {
									run(c17Case{Desired: desired, Max: 200, D: d, Fleet: true, Lifecycle: lc, Overrides: ov, Subnets: sn, Split: split, PageSize: ps})
								}
								if lc == "" && ov == 0 {
									run(c17Case{Desired: 3, Max: 200, D: d, Fleet: true, Subnets: sn, Split: split, PageSize: ps, Stagger: true})
								}
								if ov == 0 && sn == 1 && split == 1 && ps == 50 {
									for k := 1; k <= int((d+19)/20); k++ {
										run(c17Case{Desired: 3, Max: 200, D: d, Fleet: true, Lifecycle: lc, Subnets: sn, Split: split, PageSize: ps, AttachFailAt: k})
									}
									for _, prior := range []int64{1, 7, 25} {
										run(c17Case{Desired: 3, Max: 200, D: d, Fleet: true, Lifecycle: lc, Subnets: sn, Split: split, PageSize: ps, Prior: prior})
									}
								}
							}
						}
					}
				}
			}
		}
		// an earlier scale-up on the same provider object, then the desired capacity lowered by somebody
		// else, then a refresh: the next request is computed on what the cloud reports now
		for _, fleet := range []bool{false, true} {
			for _, prior := range []int64{1, 3} {
				for _, lower := range []int64{0, 1, 2, 4} {
					for _, d := range []int64{1, 2, 6} {
						run(c17Case{Desired: 3, Max: 12, D: d, Fleet: fleet, Split: 1, PageSize: 50, Subnets: 1, Prior: prior, Lower: lower})
					}
				}
			}
		}
		// fleet bounds: rejected without any write
		for _, d := range []int64{-1, 0, 5} {
			run(c17Case{Desired: 3, Max: 7, D: d, Fleet: true, Split: 1, PageSize: 50, Subnets: 1})
			run(c17Case{Desired: 3, Max: 7, D: d, Delete: 1, Fleet: true, Split: 1, PageSize: 50, Subnets: 1})
		}
	})
}

// ExactDelta: along controller histories (several scale-ups in one lifetime, the provider rebuilt in
// between) every scale-up request is "current + d": SetDesiredCapacity never asks for less than or
// exactly what the ASG has, and what the reference decision leaves for the cloud is what is asked for.
type ExactDelta struct{ D *Decisions }

func (m ExactDelta) Key() string { return m.D.Key() }
func (m ExactDelta) AfterScan(ctx *h.ScanCtx) []h.Violation {
	var out []h.Violation
	for _, e := range ctx.Entries {
		if e.Op == sim.OpSetDesired && e.Val <= e.RealDesired {
			out = append(out, h.Violation{Prop: "C17", Sig: "C17/scale-up-does-not-raise-desired",
				Msg: fmt.Sprintf("scan %d: SetDesiredCapacity(%s, %d) while the ASG's desired capacity is %d", ctx.Scan, e.Target, e.Val, e.RealDesired)})
		}
	}
	for _, v := range m.D.AfterScan(ctx) {
		if strings.Contains(v.Sig, "cloud-request") || strings.Contains(v.Sig, "stale-desired") || strings.Contains(v.Sig, "remainder-not-requested") {
			out = append(out, h.Violation{Prop: "C17", Sig: "C17/controller-history/" + v.Sig, Msg: v.Msg})
		}
	}
	return out
}

func init() {
	register(&Check{
		ID:    "C17",
		Level: "exploration",
		Rule: "every provider-level sequence Refresh ; [DeleteNodes(0..3), optionally with its k-th terminate call failing] ; IncreaseSize(d) on the real NodeGroup for desired 0..6 x max 0..7 x d -1..8; fleet mode for d in {1,19,20,21,39,40,41,59,60,61,100} x lifecycle {unset, on-demand, spot} x overrides {none, 2 types} x subnets {1,2} x fleet answer split over 1..3 instance sets x status page size {1,50} x instances ready together / every other one a poll later x the k-th attach call answering with a throttling error x an earlier fleet scale-up of another size on the same provider; " +
			"recorded arguments compared with the statement; non-trivial = every sequence; distinct by its parameters",
		Grid: c17Grid,
		// controller histories: several scale-ups in one lifetime with the provider rebuilt in between
		Scenarios: func(tier string) []*h.Scenario {
			var out []*h.Scenario
			for _, fleet := range []bool{false, true} {
				s := c07Rebuild(fleet)
				s.Name = strings.Replace(s.Name, "c07.", "c17.", 1)
				out = append(out, s)
			}
			return out
		},
		ShardByScenario: true,
		Monitors:        func() []h.Monitor { return []h.Monitor{ExactDelta{NewDecisions()}} },
		Bound:           func(tier string) int { return 2 },
		Nontrivial:      seenKeys,
		Assumptions:     append([]string{"no other actor changes the desired capacity between Refresh and the request (an absolute-set API is inherently racy with external writers; the property quantifies over inputs and configurations)"}, commonAssumptions...),
	})
}
