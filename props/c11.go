package props

import (
	"fmt"
	"reflect"
	"testing"
	"time"

	"verif/h"
	"verif/sim"
)

// ---------------------------------------------------------------------------------------------
// C11 — dry mode performs no writes

// DryNoWrites: the journal of writes attributed to a dry group is empty, from provider
// construction onwards.
type DryNoWrites struct{}

func (DryNoWrites) Key() string { return "" }
func (DryNoWrites) AfterScan(ctx *h.ScanCtx) []h.Violation {
	var out []h.Violation
	for _, e := range ctx.Entries {
		if !e.Write() {
			continue
		}
		name := ctx.EntryGroup(e)
		g := ctx.Group(name)
		if g == nil || !g.Dry {
			continue
		}
		sig := "C11/write/" + writeKind(e)
		if e.Phase == "build" || e.Phase == "refresh" {
			sig = "C11/write/" + e.Op + "-at-provider-build"
		}
		out = append(out, h.Violation{Prop: "C11", Sig: sig, Msg: fmt.Sprintf("scan %d: %s(%s) issued for dry group %s (phase %s)", ctx.Scan, e.Op, e.Target, name, e.Phase)})
	}
	// coverage: which decisions the dry group went through (from the private dump; not an oracle)
	for i, g := range ctx.Groups {
		if !g.Dry || i >= len(ctx.Post) || i >= len(ctx.Pre) {
			continue
		}
		pre, post := ctx.Pre[i], ctx.Post[i]
		switch {
		case len(post.TaintTracker) > len(pre.TaintTracker):
			ctx.H.Cov["c11.dry-taint"]++
		case len(post.TaintTracker) < len(pre.TaintTracker):
			ctx.H.Cov["c11.dry-untaint"]++
		}
		if post.IsLocked && !pre.IsLocked {
			ctx.H.Cov["c11.dry-cloud-scale-up"]++
		}
		if post.ScaleDelta > 0 {
			ctx.H.Cov["c11.dry-scale-up-decision"]++
		}
		if post.ScaleDelta < 0 {
			ctx.H.Cov["c11.dry-scale-down-decision"]++
		}
		if len(g.F) > 0 {
			ctx.H.Cov["c11.dry-force-tainted-present"]++
		}
		if len(g.U) < g.Min {
			ctx.H.Cov["c11.dry-below-min"]++
		}
		if len(g.Nodes) == 0 {
			ctx.H.Cov["c11.dry-zero-nodes"]++
		}
	}
	return out
}

// fixedNodeEvents is a world-independent menu over the initial node names of a group (events on
// nodes that no longer exist are no-ops), so that twin executions see identical menus.
func fixedNodeEvents(g h.GroupSpec, names []string) []h.Event {
	var ev []h.Event
	for _, n := range names {
		ev = append(ev, evPodStart(g, n, 200), evPodFinish(g, n), evCordon(n, true), evForceTaint(n), evExtTaint(n, "now-5q"))
	}
	ev = append(ev, evBurst(g, 3, 1000), evClearAllPods(g))
	return ev
}

func initialNames(asg string, n int) []string {
	var out []string
	for i := 1; i <= n; i++ {
		out = append(out, sim.NodeName(fmt.Sprintf("i-%s-%03d", asg, i)))
	}
	return out
}

func c11World(hh *h.Hist, a *sim.ASG, g h.GroupSpec) {
	n1 := hh.W.AddNode(a, sim.NodeOpt{Age: 20 * Q})
	hh.W.AddPod(podOn(g, n1.Name, 100))
	hh.W.AddNode(a, sim.NodeOpt{Age: 21 * Q})
	hh.W.AddNode(a, sim.NodeOpt{Age: 22 * Q})
	hh.W.AddNode(a, sim.NodeOpt{Age: 23 * Q, TaintAge: dp(5 * Q)})
	hh.W.AddNode(a, sim.NodeOpt{Age: 24 * Q, ForceTaint: true})
}

func C11Scenarios(tier string) []*h.Scenario {
	var out []*h.Scenario
	for _, v := range []string{"group-flag", "global-flag", "tagging", "auto"} {
		g := StdGroup("g1")
		g.Opts.MinNodes = 1
		s := &h.Scenario{Name: "c11." + v, Slots: 9, Quantum: Q, MaxEventsPerSlot: 2}
		switch v {
		case "group-flag":
			g.Opts.DryMode = true
		case "global-flag":
			s.DryGlobal = true
		case "tagging":
			g.Opts.DryMode = true
			g.Opts.AWS.ResourceTagging = true
			g.Opts.AWS.LaunchTemplateID, g.Opts.AWS.LaunchTemplateVersion = "lt-1", "1"
		case "auto":
			g.Opts.DryMode = true
			g.Opts.MinNodes, g.Opts.MaxNodes = 0, 0
			g.ASG.Min, g.ASG.Max = 1, 8
		}
		gg := g
		s.Groups = []h.GroupSpec{gg}
		s.Init = func(hh *h.Hist) { c11World(hh, InitASGs(hh)[0], gg) }
		names := initialNames(gg.ASG.Name, 5)
		s.Events = func(hh *h.Hist, slot int) []h.Event {
			ev := fixedNodeEvents(gg, names)
			ev = append(ev, evRestart(), evRefreshFails(), evRefreshDown(), evASGEdit(gg.ASG.Name, 4, 8), evASGEdit(gg.ASG.Name, 0, 8))
			// a hand-made escalator taint that is not a time on the oldest untainted nodes (dry mode tracks
			// taints itself and must leave the real one alone), and an instance that never joins the cluster
			// (the cloud target runs ahead of the registered nodes)
			// the operator parks the cloud group (maximum 0) or lowers its maximum below the node count
			ev = append(ev, evASGEdit(gg.ASG.Name, 0, 0), evASGEdit(gg.ASG.Name, 1, 3))
			// a burst large enough for a (simulated) cloud scale-up in one step
			ev = append(ev, evBurst(gg, 7, 1000))
			ev = append(ev, evExtTaint(names[1], "abc"), evExtTaint(names[2], "abc"),
				h.Event{Label: "instance-never-joins(+1)", Apply: func(hh *h.Hist) {
					if a := hh.W.FindASG(gg.ASG.Name); a != nil && a.Desired < a.Max {
						hh.W.AddPendingInstance(a)
					}
				}})
			return ev
		}
		out = append(out, s)
	}
	// fewer nodes than min_nodes, the cloud target below min_nodes too; and a small group where
	// cordons push the untainted count below the minimum
	for _, v := range []string{"under-min", "cordon-below-min"} {
		g := StdGroup("g1")
		g.Opts.DryMode = true
		s := &h.Scenario{Name: "c11." + v, Slots: 6, Quantum: Q, MaxEventsPerSlot: 2}
		n := 3
		if v == "under-min" {
			g.Opts.MinNodes = 3
			g.ASG.Min = 1
			n = 2
		} else {
			g.Opts.MinNodes = 2
		}
		gg := g
		s.Groups = []h.GroupSpec{gg}
		s.Init = func(hh *h.Hist) {
			a := InitASGs(hh)[0]
			for i := 0; i < n; i++ {
				nd := hh.W.AddNode(a, sim.NodeOpt{Age: time.Duration(20+i) * Q})
				hh.W.AddPod(podOn(gg, nd.Name, 300))
			}
		}
		names := initialNames(gg.ASG.Name, n)
		s.Events = func(hh *h.Hist, slot int) []h.Event {
			return append(fixedNodeEvents(gg, names), evRestart(), evRegisterNode(gg), evASGEdit(gg.ASG.Name, 0, 8))
		}
		out = append(out, s)
	}
	// zero nodes, never seen a node: scale from zero
	{
		g := StdGroup("g1")
		g.Opts.DryMode = true
		g.Opts.MinNodes = 0
		s := &h.Scenario{Name: "c11.from-zero", Slots: 6, Quantum: Q, MaxEventsPerSlot: 2, Groups: []h.GroupSpec{g}}
		s.Init = func(hh *h.Hist) { InitASGs(hh) }
		s.Events = func(hh *h.Hist, slot int) []h.Event {
			return []h.Event{evBurst(g, 3, 1000), evClearAllPods(g), evRestart()}
		}
		out = append(out, s)
	}
	// A dry, B live; the twin runs A live and B's journal must not change
	{
		a, b := StdGroup("a"), StdGroup("b")
		a.Opts.DryMode = true
		mk := func(dryA bool) *h.Scenario {
			aa := a
			aa.Opts.DryMode = dryA
			s := &h.Scenario{Name: "c11.mixed", Slots: 8, Quantum: Q, MaxEventsPerSlot: 2, Groups: []h.GroupSpec{aa, b}}
			s.Init = func(hh *h.Hist) {
				as := InitASGs(hh)
				c11World(hh, as[0], aa)
				n := hh.W.AddNode(as[1], sim.NodeOpt{Age: 30 * Q})
				hh.W.AddPod(podOn(b, n.Name, 300))
				hh.W.AddNode(as[1], sim.NodeOpt{Age: 31 * Q})
				hh.W.AddNode(as[1], sim.NodeOpt{Age: 32 * Q, TaintAge: dp(1 * Q)})
			}
			names := initialNames(aa.ASG.Name, 5)
			s.Events = func(hh *h.Hist, slot int) []h.Event { return append(fixedNodeEvents(aa, names), evRestart()) }
			return s
		}
		s := mk(true)
		twin := mk(false)
		twin.Lenient = true
		s.Twin = func(t *testing.T, s *h.Scenario, hh *h.Hist, choices []int) {
			tw := h.RunTwin(t, twin, choices)
			for i := range hh.Summaries {
				if i >= len(tw.Summaries) {
					break
				}
				x, y := hh.Summaries[i].ByGroup["b"], tw.Summaries[i].ByGroup["b"]
				if !reflect.DeepEqual(x, y) {
					hh.Viol = append(hh.Viol, h.Violation{Prop: "C11", Sig: "C11/other-group-changed",
						Msg: fmt.Sprintf("scan %d: live group b did %v with group a dry but %v with group a live", hh.Summaries[i].Scan, x, y)})
					break
				}
			}
			hh.Cov["c11.twin-compared"]++
		}
		out = append(out, s)
	}
	_ = time.Second
	return out
}

func init() {
	register(&Check{
		ID:    "C11",
		Level: "model_checking",
		Rule: "deviation-bounded DFS over histories driving a dry group (group option, global flag, with resource tagging, with auto-discovered bounds, from zero nodes) through scale-up, both taint bands, reaping states, force-tainted nodes, below-minimum; plus group A dry / B live with a twin execution in which A is live; " +
			"non-trivial = scans in which the dry group's private decision state changed or a near-removal state was present; distinct = (slot, class, node, pods, age)",
		Scenarios: C11Scenarios,
		Monitors:  func() []h.Monitor { return []h.Monitor{DryNoWrites{}, &NearMiss{Seen: map[string]struct{}{}}} },
		Bound: func(tier string) int {
			if tier == "thorough" {
				return 3
			}
			return 2
		},
		Prune:       false,
		Nontrivial:  seenKeys,
		Assumptions: append([]string{"branch coverage counters for the dry group read the controller's private taint tracker (coverage only, never the oracle)"}, commonAssumptions...),
		Alphabet:    []string{"pod-start/finish(i)", "cordon(i)", "force-taint(i)", "ext-taint(i, now-5q)", "burst", "clear-pods", "restart", "asg-edit(min)"},
	})
}
