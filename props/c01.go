package props

import (
	"fmt"
	"time"

	v1 "k8s.io/api/core/v1"

	"verif/h"
	"verif/sim"
)

// ---------------------------------------------------------------------------------------------
// C01 — removal only after taint, grace period and drain

// RemovalSafety is the pure safety predicate of C01 evaluated on every removal call of every
// scan: it looks only at the pre-scan view, the virtual time of the call and the configuration.
type RemovalSafety struct{}

func (RemovalSafety) Key() string { return "" }

func (RemovalSafety) AfterScan(ctx *h.ScanCtx) []h.Violation {
	var out []h.Violation
	bad := func(sig, msg string) {
		out = append(out, h.Violation{Prop: "C01", Sig: "C01/removed/" + sig, Msg: msg})
	}
	for _, e := range ctx.Entries {
		var g *h.GroupView
		var n *v1.Node
		switch e.Op {
		case sim.OpTerminate:
			g, n = ctx.NodeOfInstance(e.Target)
		case sim.OpK8sDelete:
			g, n = ctx.GroupOfNode(e.Target)
		default:
			continue
		}
		what := fmt.Sprintf("%s(%s) at %s in scan %d", e.Op, e.Target, e.T.UTC().Format("15:04:05"), ctx.Scan)
		if n == nil {
			bad("not-in-view", what+": target is not a node of any configured group in the scan's view")
			continue
		}
		if g.Dry {
			continue // dry groups are C11's subject
		}
		if n.Spec.Unschedulable {
			bad("cordoned", what+": node is cordoned in the scan's view")
			continue
		}
		pods := g.PodsOn[n.Name]
		_, force := h.HasTaint(n, h.ForceTaintKey)
		tv, tainted := h.HasTaint(n, h.TaintKey)
		tt, readable := h.TaintTime(n)
		soft, hard := softOf(g.Spec), hardOf(g.Spec)
		okA := tainted && readable && e.T.Sub(tt) > soft && pods == 0
		okB := tainted && readable && e.T.Sub(tt) > hard
		okC := force && pods == 0
		if okA || okB || okC {
			ctx.H.Cov["c01.removed"]++
			continue
		}
		switch {
		case !tainted && !force:
			bad("untainted", what+": node carries neither taint in the scan's view")
		case force && !tainted:
			bad("force-nonempty", fmt.Sprintf("%s: force-tainted node runs %d group pods", what, pods))
		case !readable:
			bad("unreadable-taint-time", fmt.Sprintf("%s: taint value %q is not a Unix time", what, tv.Value))
		case e.T.Sub(tt) <= soft:
			bad("grace-not-expired", fmt.Sprintf("%s: tainted %s ago, soft grace %s", what, e.T.Sub(tt), soft))
		default:
			bad("nonempty-before-hard", fmt.Sprintf("%s: tainted %s ago (hard grace %s) and runs %d group pods", what, e.T.Sub(tt), hard, pods))
		}
	}
	return out
}

// c01Classes lists, for the non-triviality count, the near-miss situations a scan contained.
func c01Classes(ctx *h.ScanCtx, removed map[string]bool) []string {
	var out []string
	for _, g := range ctx.Groups {
		soft, hard := softOf(g.Spec), hardOf(g.Spec)
		for _, n := range g.Nodes {
			pods := g.PodsOn[n.Name]
			_, force := h.HasTaint(n, h.ForceTaintKey)
			_, tainted := h.HasTaint(n, h.TaintKey)
			tt, readable := h.TaintTime(n)
			age := ctx.Start.Sub(tt)
			cls := ""
			switch {
			case removed[n.Name]:
				cls = "removed"
			case n.Spec.Unschedulable && tainted && readable && age > soft:
				cls = "kept:cordoned-expired"
			case n.Annotations[h.NoDeleteKey] != "" && tainted && readable && age > soft:
				cls = "kept:annotated-expired"
			case tainted && !readable:
				cls = "kept:unreadable"
			case tainted && age == soft:
				cls = "kept:age=soft"
			case tainted && age == hard && pods > 0:
				cls = "kept:age=hard,pods"
			case tainted && age > soft && pods > 0:
				cls = "kept:soft<age,pods"
			case force && pods > 0:
				cls = "kept:force,pods"
			case !tainted && !force && pods == 0:
				cls = "kept:untainted-empty"
			}
			if cls != "" {
				out = append(out, fmt.Sprintf("%s:%s:p%d:age%d", cls, n.Name, pods, int64(age/time.Second)))
			}
		}
	}
	return out
}

// NearMiss records the C01 non-trivial classes seen in an execution.
type NearMiss struct{ Seen map[string]struct{} }

func (m *NearMiss) Key() string { return "" }
func (m *NearMiss) AfterScan(ctx *h.ScanCtx) []h.Violation {
	removed := map[string]bool{}
	for _, e := range ctx.Entries {
		if e.Op == sim.OpK8sDelete && e.Err == "" {
			removed[e.Target] = true
		}
		if e.Op == sim.OpTerminate && e.Err == "" {
			if _, n := ctx.NodeOfInstance(e.Target); n != nil {
				removed[n.Name] = true
			}
		}
	}
	for _, k := range c01Classes(ctx, removed) {
		m.Seen[fmt.Sprintf("slot%d:%s", ctx.H.Slot, k)] = struct{}{}
	}
	return nil
}

// perNodeEvents instantiates the per-node deviation alphabet of C01/C09/C10 on the current world.
func perNodeEvents(hh *h.Hist, g h.GroupSpec, cap int, taintValues []string) []h.Event {
	var ev []h.Event
	for _, n := range groupNodes(hh, g, cap) {
		name := n.Name
		ev = append(ev, evPodStart(g, name, 200), evPodStartAffinity(g, name, 100), evPodStartPending(g, name, 100), evPodFinish(g, name), evDaemonSet(g, name))
		ev = append(ev, evCordon(name, !n.Spec.Unschedulable))
		for _, v := range taintValues {
			ev = append(ev, evExtTaint(name, v))
		}
		ev = append(ev, evForceTaint(name))
		if n.Annotations[h.NoDeleteKey] == "" {
			ev = append(ev, evAnnotate(name, "x"))
		} else {
			ev = append(ev, evAnnotate(name, "<remove>"))
		}
	}
	return ev
}

// "13800000000" is a readable time four centuries ahead; "nowms" is the current time in milliseconds
// (a readable number, some 57 000 years ahead when read as seconds): neither is ever past a grace period
var c01TaintValuesShort = []string{"now-1q", "now-5q", "now+10q", "abc", "0x5f5e100", "13800000000"}

var c01TaintValues = []string{"now+0q", "now-1q", "now-3q", "now-5q", "now+10q", "abc", "", "12.5", "-5", "0x5f5e100", "1_000", "13800000000", "nowms"}

// C01Scenarios returns the scenarios of the C01 check for a tier.
func C01Scenarios(tier string) []*h.Scenario {
	groupName := "g1"
	mk := func(name string, minNodes int, init func(hh *h.Hist, a *sim.ASG, g h.GroupSpec), faults bool) *h.Scenario {
		g := StdGroup(groupName)
		g.Opts.MinNodes = minNodes
		s := &h.Scenario{
			Name:             name,
			Groups:           []h.GroupSpec{g},
			Slots:            9,
			Quantum:          Q,
			MaxEventsPerSlot: 2,
			Init: func(hh *h.Hist) {
				a := InitASGs(hh)[0]
				init(hh, a, g)
			},
			Events: func(hh *h.Hist, slot int) []h.Event {
				// the full value alphabet on the mid-lifecycle world; a representative subset elsewhere
				vals := c01TaintValuesShort
				if name == "c01.mid" || tier == "thorough" {
					vals = c01TaintValues
				}
				ev := perNodeEvents(hh, g, 4, vals)
				ev = append(ev, evBurst(g, 3, 1000), evClearPending(g), evRestart(), evStale(), evSkipSettle(), evRefreshFails(), evPodRecreatedSelecting(g))
				return ev
			},
		}
		if faults {
			s.FaultOps = map[string]bool{sim.OpK8sGet: true, sim.OpK8sUpdate: true, sim.OpK8sDelete: true, sim.OpTerminate: true, sim.OpSetDesired: true, sim.OpDescribeASG: true}
			if tier == "thorough" {
				s.KillOps = map[string]bool{sim.OpK8sUpdate: true, sim.OpK8sDelete: true, sim.OpTerminate: true}
			}
		}
		return s
	}
	fresh := func(hh *h.Hist, a *sim.ASG, g h.GroupSpec) {
		for i := 0; i < 3; i++ {
			n := hh.W.AddNode(a, sim.NodeOpt{Age: time.Duration(10+i) * Q})
			hh.W.AddPod(podOn(g, n.Name, 200))
		}
	}
	mid := func(hh *h.Hist, a *sim.ASG, g h.GroupSpec) {
		n1 := hh.W.AddNode(a, sim.NodeOpt{Age: 20 * Q})
		hh.W.AddPod(podOn(g, n1.Name, 500))
		n2 := hh.W.AddNode(a, sim.NodeOpt{Age: 19 * Q, TaintAge: dp(1 * Q)})
		hh.W.AddPod(podOn(g, n2.Name, 200))
		n3 := hh.W.AddNode(a, sim.NodeOpt{Age: 18 * Q, TaintAge: dp(3 * Q)})
		hh.W.AddNode(a, sim.NodeOpt{Age: 17 * Q, ForceTaint: true})
		// a pod of nobody's (it selects no configured group) runs on the expired node; it may be
		// re-created under the same name selecting this group
		hh.W.AddPod(sim.PodOpt{Node: n3.Name, CPUMilli: 50, MemBytes: 64 << 20, Selector: map[string]string{"team": "somebody-else"}})
	}
	// a group that can go over max_nodes (extra node registering): the early-return paths must not
	// reap on information from an earlier scan
	overmax := mk("c01.overmax", 1, func(hh *h.Hist, a *sim.ASG, g h.GroupSpec) {
		n1 := hh.W.AddNode(a, sim.NodeOpt{Age: 20 * Q})
		hh.W.AddPod(podOn(g, n1.Name, 500))
		hh.W.AddNode(a, sim.NodeOpt{Age: 19 * Q, TaintAge: dp(0)})
		hh.W.AddNode(a, sim.NodeOpt{Age: 18 * Q, TaintAge: dp(1 * Q)})
	}, false)
	overmax.Groups[0].Opts.MaxNodes = 3
	gOver := overmax.Groups[0]
	overmax.Events = func(hh *h.Hist, slot int) []h.Event {
		var ev []h.Event
		for _, n := range groupNodes(hh, gOver, 4) {
			ev = append(ev, evPodStart(gOver, n.Name, 200), evPodFinish(gOver, n.Name), evCordon(n.Name, !n.Spec.Unschedulable))
		}
		return append(ev, evRegisterNode(gOver), evBurst(gOver, 3, 1000), evClearPending(gOver), evRestart(), evStale())
	}
	// grace periods that are not multiples of the scan interval (90 s / 210 s)
	offgrid := mk("c01.mid.offgrid", 1, mid, false)
	offgrid.Groups[0].Opts.SoftDeleteGracePeriod, offgrid.Groups[0].Opts.HardDeleteGracePeriod = "90s", "210s"
	// two groups with different grace periods and taint effects: each group's nodes are judged by
	// its own configuration
	two := func() *h.Scenario {
		g1, g2 := StdGroup("g1"), StdGroup("g2")
		g2.Opts.SoftDeleteGracePeriod, g2.Opts.HardDeleteGracePeriod = dur(1), dur(6)
		g2.Opts.TaintEffect = "NoExecute"
		s := &h.Scenario{Name: "c01.two-groups", Groups: []h.GroupSpec{g1, g2}, Slots: 8, Quantum: Q, MaxEventsPerSlot: 2}
		s.Init = func(hh *h.Hist) {
			as := InitASGs(hh)
			for i, g := range s.Groups {
				n1 := hh.W.AddNode(as[i], sim.NodeOpt{Age: 20 * Q})
				hh.W.AddPod(podOn(g, n1.Name, 500))
				n2 := hh.W.AddNode(as[i], sim.NodeOpt{Age: 19 * Q, TaintAge: dp(1 * Q)})
				hh.W.AddPod(podOn(g, n2.Name, 200))
				hh.W.AddNode(as[i], sim.NodeOpt{Age: 18 * Q, TaintAge: dp(1 * Q)})
				hh.W.AddNode(as[i], sim.NodeOpt{Age: 17 * Q, TaintAge: dp(3 * Q)})
			}
		}
		s.Events = func(hh *h.Hist, slot int) []h.Event {
			var ev []h.Event
			for _, g := range s.Groups {
				for _, n := range groupNodes(hh, g, 3) {
					ev = append(ev, evPodStart(g, n.Name, 200), evPodFinish(g, n.Name), evExtTaint(n.Name, "now-1q"), evExtTaint(n.Name, "now-5q"))
				}
			}
			return append(ev, evRestart(), evRefreshFails())
		}
		return s
	}()
	// the cloud group can lose fewer nodes than are due for removal (its own minimum is above
	// min_nodes), and tainted nodes that are not removable are listed before the removable ones
	tight := mk("c01.tight-room", 1, func(hh *h.Hist, a *sim.ASG, g h.GroupSpec) {
		n0 := hh.W.AddNode(a, sim.NodeOpt{Age: 21 * Q, TaintAge: dp(3 * Q)}) // busy: not removable before the hard grace period
		hh.W.AddPod(podOn(g, n0.Name, 200))
		hh.W.AddNode(a, sim.NodeOpt{Age: 20 * Q, TaintAge: dp(1 * Q)}) // fresh
		hh.W.AddNode(a, sim.NodeOpt{Age: 19 * Q, TaintAge: dp(3 * Q)})
		hh.W.AddNode(a, sim.NodeOpt{Age: 18 * Q, TaintAge: dp(3 * Q)})
		n4 := hh.W.AddNode(a, sim.NodeOpt{Age: 17 * Q})
		hh.W.AddPod(podOn(g, n4.Name, 500))
		hh.W.AddNode(a, sim.NodeOpt{Age: 16 * Q})
		a.Min = a.Desired - 1
	}, false)
	tight.Slots = 6
	gTight := tight.Groups[0]
	tight.Events = func(hh *h.Hist, slot int) []h.Event {
		var ev []h.Event
		for _, n := range groupNodes(hh, gTight, 4) {
			ev = append(ev, evPodStart(gTight, n.Name, 200), evPodFinish(gTight, n.Name), evAnnotate(n.Name, "keep"), evExtTaint(n.Name, "abc"))
		}
		return append(ev, evASGEdit(gTight.ASG.Name, 0, 8), evASGEdit(gTight.ASG.Name, 4, 8), evRestart())
	}
	// a label-selected group whose name differs from the special name "default" only in capitalisation
	groupName = "Default"
	capital := mk("c01.mid.group-named-Default", 1, mid, false)
	groupName = "g1"
	capital.Slots = 6
	// the thorough tier spends its third deviation on the core worlds; the add-on worlds stay at two
	for _, s := range []*h.Scenario{overmax, offgrid, two, tight, capital} {
		s.BoundCap = 2
	}
	return []*h.Scenario{
		mk("c01.fresh", 1, fresh, false),
		mk("c01.mid", 1, mid, false),
		mk("c01.mid.min0", 0, mid, false),
		mk("c01.fresh.faults", 1, fresh, true),
		mk("c01.mid.faults", 1, mid, true),
		overmax,
		offgrid,
		two,
		tight,
		capital,
	}
}
