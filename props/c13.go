package props

import (
	"fmt"
	"math/big"
	"strings"
	"testing"
	"time"

	"github.com/atlassian/escalator/pkg/controller"
	"github.com/atlassian/escalator/pkg/k8s"
	"github.com/atlassian/escalator/pkg/metrics"
	"github.com/prometheus/client_golang/prometheus"
	dto "github.com/prometheus/client_model/go"
	v1 "k8s.io/api/core/v1"
	"k8s.io/apimachinery/pkg/api/resource"
	metav1 "k8s.io/apimachinery/pkg/apis/meta/v1"

	"verif/h"
	"verif/sim"
)

// ---------------------------------------------------------------------------------------------
// C13 — utilisation = requests over untainted allocatable, order-independent

// parseExact is an independent parser of the quantity alphabet into exact integers:
// CPU strings to millicores, memory strings to bytes. Values finer than a millicore / a byte do
// not occur in the alphabet (the statement does not define their rounding).
func parseExact(s string, milli bool) int64 {
	if s == "" {
		return 0
	}
	suffixes := []struct {
		suf string
		num *big.Int
	}{
		{"Ki", big.NewInt(1 << 10)}, {"Mi", big.NewInt(1 << 20)}, {"Gi", big.NewInt(1 << 30)},
		{"k", big.NewInt(1000)}, {"M", big.NewInt(1000000)}, {"G", big.NewInt(1000000000)},
	}
	r := new(big.Rat)
	switch {
	case strings.HasSuffix(s, "m") && !strings.HasSuffix(s, "Mim"):
		r.SetString(strings.TrimSuffix(s, "m"))
		r.Quo(r, big.NewRat(1000, 1))
	default:
		mult := big.NewInt(1)
		num := s
		for _, x := range suffixes {
			if strings.HasSuffix(s, x.suf) {
				mult, num = x.num, strings.TrimSuffix(s, x.suf)
				break
			}
		}
		r.SetString(num)
		r.Mul(r, new(big.Rat).SetInt(mult))
	}
	if milli {
		r.Mul(r, big.NewRat(1000, 1))
	}
	if !r.IsInt() {
		panic("quantity alphabet contains a value finer than the unit: " + s)
	}
	return r.Num().Int64()
}

type reqSpec struct{ CPU, Mem string }

var c13Alphabet = []reqSpec{{"", ""}, {"100m", "64Mi"}, {"250m", "1Gi"}, {"0.5", "1.5Gi"}, {"1", "1G"}}

type podShape struct {
	Containers []int // indices into the alphabet
	Inits      []int
	Overhead   bool
}

func (p podShape) String() string {
	return fmt.Sprintf("c%v/i%v/o%v", p.Containers, p.Inits, p.Overhead)
}

func rl(r reqSpec) v1.ResourceList {
	out := v1.ResourceList{}
	if r.CPU != "" {
		out[v1.ResourceCPU] = resource.MustParse(r.CPU)
	}
	if r.Mem != "" {
		out[v1.ResourceMemory] = resource.MustParse(r.Mem)
	}
	return out
}

var c13Overhead = reqSpec{"10m", "32Mi"}

func (p podShape) build(name string) *v1.Pod {
	pod := &v1.Pod{ObjectMeta: metav1.ObjectMeta{Name: name, Namespace: "default"}}
	for i, c := range p.Containers {
		pod.Spec.Containers = append(pod.Spec.Containers, v1.Container{Name: fmt.Sprint("c", i), Resources: v1.ResourceRequirements{Requests: rl(c13Alphabet[c])}})
	}
	for i, c := range p.Inits {
		pod.Spec.InitContainers = append(pod.Spec.InitContainers, v1.Container{Name: fmt.Sprint("i", i), Resources: v1.ResourceRequirements{Requests: rl(c13Alphabet[c])}})
	}
	if p.Overhead {
		pod.Spec.Overhead = rl(c13Overhead)
	}
	return pod
}

// exact is the oracle: max(sum of containers, largest init container) + overhead, per resource.
func (p podShape) exact() (cpu, mem int64) {
	for _, c := range p.Containers {
		cpu += parseExact(c13Alphabet[c].CPU, true)
		mem += parseExact(c13Alphabet[c].Mem, false)
	}
	for _, c := range p.Inits {
		if v := parseExact(c13Alphabet[c].CPU, true); v > cpu {
			cpu = v
		}
		if v := parseExact(c13Alphabet[c].Mem, false); v > mem {
			mem = v
		}
	}
	if p.Overhead {
		cpu += parseExact(c13Overhead.CPU, true)
		mem += parseExact(c13Overhead.Mem, false)
	}
	return
}

func c13Shapes() []podShape {
	var lists [][]int
	lists = append(lists, nil)
	for a := range c13Alphabet {
		lists = append(lists, []int{a})
	}
	for a := range c13Alphabet {
		for b := range c13Alphabet {
			lists = append(lists, []int{a, b})
		}
	}
	var out []podShape
	for _, cs := range lists {
		for _, is := range lists {
			for _, o := range []bool{false, true} {
				out = append(out, podShape{cs, is, o})
			}
		}
	}
	return out
}

type nodeShape struct{ CPU, Mem string } // "" = no allocatable

var c13Nodes = []nodeShape{{"1000m", "4Gi"}, {"3900m", "16G"}, {"", ""}, {"7.5", "7.5Gi"}}

func (n nodeShape) build(name string) *v1.Node {
	nd := &v1.Node{ObjectMeta: metav1.ObjectMeta{Name: name}}
	// every node reports its raw capacity (larger than anything allocatable); only allocatable counts
	nd.Status.Capacity = v1.ResourceList{v1.ResourceCPU: resource.MustParse("64"), v1.ResourceMemory: resource.MustParse("256Gi")}
	if n.CPU != "" {
		nd.Status.Allocatable = v1.ResourceList{v1.ResourceCPU: resource.MustParse(n.CPU), v1.ResourceMemory: resource.MustParse(n.Mem)}
	}
	return nd
}

func multisets(n, maxLen int) [][]int {
	var out [][]int
	var rec func(cur []int, from int)
	rec = func(cur []int, from int) {
		out = append(out, append([]int(nil), cur...))
		if len(cur) == maxLen {
			return
		}
		for i := from; i < n; i++ {
			rec(append(cur, i), i)
		}
	}
	rec(nil, 0)
	return out
}

func permute(idx []int) [][]int {
	var out [][]int
	for _, p := range perms(len(idx)) {
		q := make([]int, len(idx))
		for i, j := range p {
			q[i] = idx[j]
		}
		out = append(out, q)
	}
	return out
}

func c13Grid(t *testing.T, tier string, shard, shards int, c *h.Collector) {
	shapes := c13Shapes()
	report := func(sig, msg string, desc any) {
		c.Report(h.Found{Violation: h.Violation{Prop: "C13", Sig: sig, Msg: msg}, Scenario: "c13.grid", Case: desc})
	}
	// reduced universes for pairs and triples: every k-th shape (a fixed, stated subset)
	stride2, stride3 := 41, 157
	if tier == "thorough" {
		stride2, stride3 = 13, 67
	}
	var u2, u3 []int
	for i := 0; i < len(shapes); i += stride2 {
		u2 = append(u2, i)
	}
	for i := 0; i < len(shapes); i += stride3 {
		u3 = append(u3, i)
	}
	var podSets [][]int
	for i := range shapes {
		podSets = append(podSets, []int{i})
	}
	for _, ms := range multisets(len(u2), 2) {
		if len(ms) == 2 {
			podSets = append(podSets, []int{u2[ms[0]], u2[ms[1]]})
		}
	}
	for _, ms := range multisets(len(u3), 3) {
		if len(ms) == 3 {
			podSets = append(podSets, []int{u3[ms[0]], u3[ms[1]], u3[ms[2]]})
		}
	}
	podSets = append(podSets, nil)
	nodeSets := multisets(len(c13Nodes), 3)

	for si, set := range podSets {
		if si%shards != shard {
			continue
		}
		var wantCPU, wantMem int64
		for _, i := range set {
			cpu, mem := shapes[i].exact()
			wantCPU += cpu
			wantMem += mem
		}
		desc := func() any {
			var ss []string
			for _, i := range set {
				ss = append(ss, shapes[i].String())
			}
			return map[string]any{"pods": ss}
		}
		var gotCPU, gotMem int64
		for pi, order := range permute(set) {
			var pods []*v1.Pod
			for k, i := range order {
				pods = append(pods, shapes[i].build(fmt.Sprint("p", k)))
			}
			u, err := k8s.CalculatePodsRequestedUsage(pods)
			c.R.Evaluations++
			if err != nil {
				report("C13/requests-error", err.Error(), desc())
				continue
			}
			if u.Total.MilliCPU != wantCPU || u.Total.Memory != wantMem {
				report("C13/request-total", fmt.Sprintf("pods %v: computed %dm / %dB, definition gives %dm / %dB", desc(), u.Total.MilliCPU, u.Total.Memory, wantCPU, wantMem), desc())
			}
			if pi > 0 && (u.Total.MilliCPU != gotCPU || u.Total.Memory != gotMem) {
				report("C13/order-dependent-requests", fmt.Sprintf("pods %v: totals differ between list orders", desc()), desc())
			}
			gotCPU, gotMem = u.Total.MilliCPU, u.Total.Memory
		}
		c.Nontrivial(fmt.Sprint("pods/", set))
		if len(set) > 2 || si%7 != 0 {
			continue
		}
		// percent against every node multiset, in every node order
		for _, ns := range nodeSets {
			var capCPU, capMem int64
			for _, i := range ns {
				capCPU += parseExact(c13Nodes[i].CPU, true)
				capMem += parseExact(c13Nodes[i].Mem, false)
			}
			for _, order := range permute(ns) {
				var nodes []*v1.Node
				for k, i := range order {
					nodes = append(nodes, c13Nodes[i].build(fmt.Sprint("n", k)))
				}
				nc, err := k8s.CalculateNodesCapacity(nodes, nil)
				// the same node objects are listed scan after scan: a second and third evaluation must
				// give the same totals (the calculators must not write into the cached objects)
				for rep := 0; rep < 2 && err == nil; rep++ {
					again, err2 := k8s.CalculateNodesCapacity(nodes, nil)
					if err2 != nil || again.Total != nc.Total {
						report("C13/capacity-changes-on-repeated-evaluation", fmt.Sprintf("nodes %v: capacity %dm / %dB on the first evaluation, %dm / %dB on a later one over the same objects", order, nc.Total.MilliCPU, nc.Total.Memory, again.Total.MilliCPU, again.Total.Memory), map[string]any{"nodes": order})
						break
					}
				}
				c.R.Evaluations++
				d := map[string]any{"pods": desc(), "nodes": order}
				if err != nil {
					report("C13/capacity-error", err.Error(), d)
					continue
				}
				if nc.Total.MilliCPU != capCPU || nc.Total.Memory != capMem {
					report("C13/capacity-total", fmt.Sprintf("nodes %v: computed %dm / %dB, definition gives %dm / %dB", order, nc.Total.MilliCPU, nc.Total.Memory, capCPU, capMem), d)
				}
				if capCPU == 0 || capMem == 0 {
					continue
				}
				req := k8s.PodRequestedUsage{}
				req.Total.MilliCPU, req.Total.Memory = wantCPU, wantMem
				cp, mp, err := controller.VerifCalcPercentUsage(*req.Total.GetCPUQuantity(), *req.Total.GetMemoryQuantity(), *nc.Total.GetCPUQuantity(), *nc.Total.GetMemoryQuantity(), int64(len(nodes)))
				if err != nil {
					report("C13/percent-error", err.Error(), d)
					continue
				}
				if !closeTo(cp, wantCPU, capCPU) || !closeTo(mp, wantMem, capMem) {
					report("C13/percent", fmt.Sprintf("percent %v / %v for %d/%d and %d/%d", cp, mp, wantCPU, capCPU, wantMem, capMem), d)
				}
				c.Nontrivial(fmt.Sprint("pct/", set, ns))
			}
		}
	}
	if shard == 0 {
		c13EndToEnd(t, c)
		c13Replaced(t, c)
		c13DecisionEdges(t, c)
		c13DryGroup(t, c)
		c13ExactThresholds(t, c)
		c13Large(c)
		c13ManyPods(c)
	}
	if len(c.R.Samples) < 1 {
		c.R.Samples = append(c.R.Samples, map[string]any{"pods": shapes[len(shapes)/2].String(), "note": "one of the enumerated pod shapes"})
	}
}

// closeTo: got == 100*req/cap to 1e-12 relative.
func closeTo(got float64, req, cap int64) bool {
	want := new(big.Rat).SetFrac(big.NewInt(req*100), big.NewInt(cap))
	g := new(big.Rat)
	if g.SetFloat64(got) == nil {
		return false
	}
	diff := new(big.Rat).Sub(g, want)
	diff.Abs(diff)
	tol := new(big.Rat).Mul(want, big.NewRat(1, 1000000000000))
	if want.Sign() == 0 {
		return diff.Sign() == 0
	}
	return diff.Cmp(tol) <= 0
}

func gaugeValue(g prometheus.Gauge) float64 {
	var m dto.Metric
	g.Write(&m)
	return m.GetGauge().GetValue()
}

// c13EndToEnd runs single scans over mixed node lists (untainted, tainted, cordoned, force-tainted)
// and pod shapes, in every list order, and reads the request / capacity / percent gauges.
func c13EndToEnd(t *testing.T, c *h.Collector) {
	shapes := c13Shapes()
	pick := []int{0, 37, 311, 702, 1203, 1921}
	kinds := []string{"u", "u", "t", "c", "f"}
	for _, pm := range perms(len(kinds)) {
		for pi := 0; pi+1 < len(pick); pi++ {
			// where the two pods run: not bound; both on the group's first listed node; the first on a node
			// that no longer exists and the second on a node of another group (a pod counts by what it
			// selects, wherever it is bound)
			// "terminating": both pods carry a deletion timestamp in the past (held by a finalizer): they are
			// still listed and still count. "prefer": the group taints with PreferNoSchedule and the tainted
			// node carries that effect: it is tainted all the same and does not count as capacity
			for _, bind := range []string{"unbound", "own", "elsewhere", "terminating", "prefer"} {
				bind := bind
				g := StdGroup("g1")
				if bind == "prefer" {
					g.Opts.TaintEffect = v1.TaintEffectPreferNoSchedule
				}
				g.Opts.MinNodes, g.Opts.MaxNodes = 0, 10
				g.ASG.Max = 10
				var wantCPU, wantMem int64
				podIdx := []int{pick[pi], pick[pi+1]}
				for _, i := range podIdx {
					cpu, mem := shapes[i].exact()
					wantCPU += cpu
					wantMem += mem
				}
				s := &h.Scenario{Name: "c13.e2e", Groups: []h.GroupSpec{g}, Slots: 1, Quantum: Q,
					Init: func(hh *h.Hist) {
						a := InitASGs(hh)[0]
						for k, j := range pm {
							o := sim.NodeOpt{Age: time.Duration(10+k) * Q}
							switch kinds[j] {
							case "t":
								o.TaintAge = dp(0)
								o.CPUMilli, o.MemBytes = 7000, 1<<30
								o.TaintEffect = g.Opts.TaintEffect
							case "c":
								o.Cordoned = true
								o.CPUMilli, o.MemBytes = 9000, 2<<30
							case "f":
								o.ForceTaint = true
								o.CPUMilli, o.MemBytes = 11000, 3<<30
							}
							hh.W.AddNode(a, o)
						}
						other := hh.W.AddASG(sim.ASG{Name: "asg-elsewhere", Min: 0, Max: 5, LabelKey: g.Opts.LabelKey, LabelValue: "elsewhere"})
						on := hh.W.AddNode(other, sim.NodeOpt{Age: 30 * Q})
						for k, i := range podIdx {
							p := shapes[i].build(fmt.Sprint("e", k))
							p.Spec.NodeSelector = sel(g)
							p.Status.Phase = v1.PodRunning
							switch {
							case bind == "own":
								p.Spec.NodeName = hh.W.Nodes[0].Name
							case bind == "elsewhere" && k == 0:
								p.Spec.NodeName = "node-that-is-gone"
							case bind == "elsewhere":
								p.Spec.NodeName = on.Name
							case bind == "terminating":
								past := metav1.NewTime(time.Now().Add(-10 * time.Minute))
								p.DeletionTimestamp = &past
								p.Finalizers = []string{"example.com/hold"}
							}
							hh.W.Pods = append(hh.W.Pods, p)
						}
					}}
				hh := RunCase(t, s)
				c.R.Evaluations++
				c.R.Scans += hh.Scans
				d := map[string]any{"node_order": pm, "pods": []string{shapes[podIdx[0]].String(), shapes[podIdx[1]].String()}, "bound": bind}
				capCPU, capMem := int64(2000), int64(2*(4<<30))
				gotReqCPU := gaugeValue(metrics.NodeGroupCPURequest.WithLabelValues("g1"))
				gotCapCPU := gaugeValue(metrics.NodeGroupCPUCapacity.WithLabelValues("g1"))
				gotReqMem := gaugeValue(metrics.NodeGroupMemRequest.WithLabelValues("g1"))
				gotCapMem := gaugeValue(metrics.NodeGroupMemCapacity.WithLabelValues("g1"))
				gotCPUPct := gaugeValue(metrics.NodeGroupsCPUPercent.WithLabelValues("g1"))
				gotMemPct := gaugeValue(metrics.NodeGroupsMemPercent.WithLabelValues("g1"))
				if gotReqCPU != float64(wantCPU) || gotReqMem != float64(wantMem) {
					c.Report(h.Found{Violation: h.Violation{Prop: "C13", Sig: "C13/e2e-requests", Msg: fmt.Sprintf("gauges report requests %v m / %v B, definition gives %d m / %d B", gotReqCPU, gotReqMem, wantCPU, wantMem)}, Scenario: "c13.e2e", Case: d})
				}
				if gotCapCPU != float64(capCPU) || gotCapMem != float64(capMem) {
					c.Report(h.Found{Violation: h.Violation{Prop: "C13", Sig: "C13/e2e-capacity", Msg: fmt.Sprintf("gauges report capacity %v m / %v B; untainted uncordoned allocatable is %d m / %d B", gotCapCPU, gotCapMem, capCPU, capMem)}, Scenario: "c13.e2e", Case: d})
				}
				if !closeTo(gotCPUPct, wantCPU, capCPU) || !closeTo(gotMemPct, wantMem, capMem) {
					c.Report(h.Found{Violation: h.Violation{Prop: "C13", Sig: "C13/e2e-percent", Msg: fmt.Sprintf("gauges report %v %% / %v %%", gotCPUPct, gotMemPct)}, Scenario: "c13.e2e", Case: d})
				}
				c.Nontrivial(fmt.Sprint("e2e/", pm, podIdx, bind))
			}
		}
	}
}

// c13ExactThresholds: utilisation exactly on the lower / upper taint threshold (not below it: the slow
// rate / nothing). Where the documented formula req/cap*100 itself is inexact in float64 the outcome
// belongs to the known float-equality family (F7); everywhere else the decision must be the exact one.
func c13ExactThresholds(t *testing.T, c *h.Collector) {
	for _, nodes := range []int{4, 9, 18} {
		for _, th := range [][3]int{{10, 40, 70}, {30, 45, 70}, {30, 57, 58}, {5, 15, 70}} {
			for _, role := range []string{"lower", "upper"} {
				for _, driver := range []string{"cpu", "mem"} {
					const cpuNode, memNode = int64(1000), int64(4_000_000_000)
					capOf := map[string]int64{"cpu": int64(nodes) * cpuNode, "mem": int64(nodes) * memNode}
					thr := int64(th[0])
					if role == "upper" {
						thr = int64(th[1])
					}
					if capOf[driver]*thr%100 != 0 {
						continue
					}
					req := map[string]int64{"cpu": 1, "mem": 1}
					req[driver] = capOf[driver] * thr / 100
					g := StdGroup("g1")
					g.Opts.MinNodes, g.Opts.MaxNodes = 0, 20
					g.ASG.Max, g.ASG.MemBytes = 20, memNode
					g.Opts.TaintLowerCapacityThresholdPercent, g.Opts.TaintUpperCapacityThresholdPercent, g.Opts.ScaleUpThresholdPercent = th[0], th[1], th[2]
					s := &h.Scenario{Name: "c13.exact-thresholds", Groups: []h.GroupSpec{g}, Slots: 1, Quantum: Q,
						Init: func(hh *h.Hist) {
							a := InitASGs(hh)[0]
							for k := 0; k < nodes; k++ {
								hh.W.AddNode(a, sim.NodeOpt{Age: time.Duration(10+k) * Q})
							}
							o := podOn(g, hh.W.Nodes[0].Name, req["cpu"])
							o.MemBytes = req["mem"]
							hh.W.AddPod(o)
						}}
					hh := RunCase(t, s)
					c.R.Evaluations++
					c.R.Scans += hh.Scans
					taints := 0
					for _, e := range hh.W.J {
						if e.Op == sim.OpK8sUpdate && e.Err == "" && h.TaintAdded(e) {
							taints++
						}
					}
					want := 0
					if role == "lower" {
						want = g.Opts.SlowNodeRemovalRate
					}
					c.Nontrivial(fmt.Sprint("exact/", nodes, th, role, driver))
					if taints == want {
						continue
					}
					sig := "C13/decision-not-driven-by-exact-larger-percentage"
					if f := float64(req[driver]) / float64(capOf[driver]) * 100; f != float64(thr) {
						sig = "C13/decision-at-exact-threshold/float-equality/" + role
					}
					c.Report(h.Found{Violation: h.Violation{Prop: "C13", Sig: sig,
						Msg: fmt.Sprintf("%s requests %d of %d = exactly the %s threshold %d %% on %d nodes: %d taints, the utilisation as defined gives %d", driver, req[driver], capOf[driver], role, thr, nodes, taints, want)},
						Scenario: "c13.exact-thresholds", Case: map[string]any{"nodes": nodes, "thresholds": th, "role": role, "driver": driver}, Trace: append([]string(nil), hh.Trace...)})
				}
			}
		}
	}
}

// c13DryGroup: a group in dry mode by its own option only (the controller flag is off): a node it
// "tainted" in an earlier scan (recorded in its tracker) no longer counts as capacity.
func c13DryGroup(t *testing.T, c *h.Collector) {
	for _, global := range []bool{false, true} {
		g := StdGroup("g1")
		g.Opts.MinNodes, g.Opts.MaxNodes = 0, 10
		g.Opts.DryMode = !global
		s := &h.Scenario{Name: "c13.dry-group", Groups: []h.GroupSpec{g}, DryGlobal: global, Slots: 2, Quantum: Q,
			Init: func(hh *h.Hist) {
				a := InitASGs(hh)[0]
				// creation order differs from name order: ...-004 is the oldest, then ...-002
				for _, age := range []int{10, 12, 11, 13} {
					hh.W.AddNode(a, sim.NodeOpt{Age: time.Duration(age) * Q})
				}
				hh.W.AddPod(podOn(g, hh.W.Nodes[0].Name, 300)) // 7.5 %: the two oldest nodes are dry-tainted in scan 1
			}}
		hh := RunCase(t, s)
		c.R.Evaluations++
		c.R.Scans += hh.Scans
		gotCap := gaugeValue(metrics.NodeGroupCPUCapacity.WithLabelValues("g1"))
		gotPct := gaugeValue(metrics.NodeGroupsCPUPercent.WithLabelValues("g1"))
		if gotCap != 2000 || !closeTo(gotPct, 300, 2000) {
			c.Report(h.Found{Violation: h.Violation{Prop: "C13", Sig: "C13/e2e-capacity-dry-group",
				Msg: fmt.Sprintf("dry mode (global flag %v): after two of four 1000m nodes were dry-tainted the group reports %v m of capacity and %v %% (untainted capacity is 2000 m, 15 %%)", global, gotCap, gotPct)},
				Scenario: "c13.dry-group", Case: map[string]any{"global_flag": global}, Trace: append([]string(nil), hh.Trace...)})
		}
		c.Nontrivial(fmt.Sprint("dry-group/", global))
	}
}

// c13DecisionEdges: the larger of the two percentages, unrounded, drives the decision. Groups of 4
// nodes of 10000m / 40 GiB (so that one request unit is 0.0025 / 6e-10 percentage points) with the
// driving resource one unit below / above each threshold; the other resource idles at 1 %.
func c13DecisionEdges(t *testing.T, c *h.Collector) {
	const nodes, cpuNode, memNode = 4, int64(10000), int64(40) << 30
	capOf := map[string]int64{"cpu": nodes * cpuNode, "mem": nodes * memNode}
	for _, driver := range []string{"cpu", "mem"} {
		for _, th := range []int64{10, 40, 70} {
			for _, off := range []int64{-1, 1} {
				g := StdGroup("g1")
				g.Opts.MinNodes, g.Opts.MaxNodes = 0, 10
				g.ASG.Max = 10
				on := capOf[driver]*th/100 + off
				idle := map[string]int64{"cpu": capOf["cpu"] / 100, "mem": capOf["mem"] / 100}
				req := map[string]int64{"cpu": idle["cpu"], "mem": idle["mem"]}
				req[driver] = on
				s := &h.Scenario{Name: "c13.decision-edges", Groups: []h.GroupSpec{g}, Slots: 1, Quantum: Q,
					Init: func(hh *h.Hist) {
						a := InitASGs(hh)[0]
						for k := 0; k < nodes; k++ {
							hh.W.AddNode(a, sim.NodeOpt{Age: time.Duration(10+k) * Q, CPUMilli: cpuNode, MemBytes: memNode})
						}
						o := podOn(g, hh.W.Nodes[0].Name, req["cpu"])
						o.MemBytes = req["mem"]
						hh.W.AddPod(o)
					}}
				hh := RunCase(t, s)
				c.R.Evaluations++
				c.R.Scans += hh.Scans
				taints, incr := 0, 0
				for _, e := range hh.W.J {
					if e.Op == sim.OpK8sUpdate && e.Err == "" && h.TaintAdded(e) {
						taints++
					}
					if e.Op == sim.OpSetDesired {
						incr++
					}
				}
				// exact comparison: on*100 vs th*cap
				wantTaints, wantIncr := 0, 0
				switch {
				case th == 10 && off < 0:
					wantTaints = g.Opts.FastNodeRemovalRate
				case th == 10 || (th == 40 && off < 0):
					wantTaints = g.Opts.SlowNodeRemovalRate
				case th == 70 && off > 0:
					wantIncr = 1
				}
				if taints != wantTaints || incr != wantIncr {
					c.Report(h.Found{Violation: h.Violation{Prop: "C13", Sig: "C13/decision-not-driven-by-exact-larger-percentage",
						Msg: fmt.Sprintf("%s requests %d of %d (threshold %d %% %+d unit), the other resource at 1 %%: %d taints and %d cloud increases, the utilisation as defined gives %d and %d", driver, on, capOf[driver], th, off, taints, incr, wantTaints, wantIncr)},
						Scenario: "c13.decision-edges", Case: map[string]any{"driver": driver, "threshold": th, "offset_units": off}, Trace: append([]string(nil), hh.Trace...)})
				}
				c.Nontrivial(fmt.Sprint("edges/", driver, th, off))
			}
		}
	}
}

// c13Replaced: two scans; between them every pod is deleted and re-created under the same name with
// another shape. The second scan's gauges must reflect the pods as listed now.
func c13Replaced(t *testing.T, c *h.Collector) {
	shapes := c13Shapes()
	pairs := [][2]int{{37, 1203}, {1203, 37}, {311, 0}, {0, 1921}, {702, 703}}
	for _, pr := range pairs {
		g := StdGroup("g1")
		g.Opts.MinNodes, g.Opts.MaxNodes = 0, 10
		g.Opts.TaintLowerCapacityThresholdPercent, g.Opts.TaintUpperCapacityThresholdPercent, g.Opts.ScaleUpThresholdPercent = 1, 2, 100000
		g.Opts.SlowNodeRemovalRate, g.Opts.FastNodeRemovalRate = 0, 0
		mkPod := func(i int) *v1.Pod {
			p := shapes[i].build("worker-0")
			p.Spec.NodeSelector = sel(g)
			p.Status.Phase = v1.PodRunning
			return p
		}
		s := &h.Scenario{Name: "c13.replaced", Groups: []h.GroupSpec{g}, Slots: 2, Quantum: Q,
			Init: func(hh *h.Hist) {
				a := InitASGs(hh)[0]
				hh.W.AddNode(a, sim.NodeOpt{Age: 10 * Q})
				hh.W.AddNode(a, sim.NodeOpt{Age: 11 * Q})
				hh.W.Pods = append(hh.W.Pods, mkPod(pr[0]))
			},
			Script: func(hh *h.Hist, slot int) {
				if slot == 1 {
					hh.W.Pods = []*v1.Pod{mkPod(pr[1])}
				}
			}}
		hh := RunCase(t, s)
		c.R.Evaluations++
		c.R.Scans += hh.Scans
		wantCPU, wantMem := shapes[pr[1]].exact()
		gotCPU := gaugeValue(metrics.NodeGroupCPURequest.WithLabelValues("g1"))
		gotMem := gaugeValue(metrics.NodeGroupMemRequest.WithLabelValues("g1"))
		if gotCPU != float64(wantCPU) || gotMem != float64(wantMem) {
			c.Report(h.Found{Violation: h.Violation{Prop: "C13", Sig: "C13/e2e-requests-after-replacement", Msg: fmt.Sprintf("pod %s replaced by %s under the same name between two scans: gauges report %v m / %v B, the pod listed now requests %d m / %d B", shapes[pr[0]], shapes[pr[1]], gotCPU, gotMem, wantCPU, wantMem)},
				Scenario: "c13.replaced", Case: map[string]any{"first": shapes[pr[0]].String(), "second": shapes[pr[1]].String()}})
		}
		c.Nontrivial(fmt.Sprint("replaced/", pr))
	}
}

// c13ManyPods: request totals for hundreds to thousands of pods (one big pending pod at the head, in
// the middle or at the tail of the list).
func c13ManyPods(c *h.Collector) {
	small := podShape{Containers: []int{1}} // 100m / 64Mi
	big := podShape{Containers: []int{4, 4}, Overhead: true}
	sc, sm := small.exact()
	bc, bm := big.exact()
	for _, n := range []int{255, 256, 257, 511, 512, 513, 700, 1024, 1025, 1300, 4097} {
		for _, pos := range []int{0, n / 2, n - 1} {
			pods := make([]*v1.Pod, 0, n)
			for i := 0; i < n; i++ {
				sh := small
				if i == pos {
					sh = big
				}
				p := sh.build(fmt.Sprint("m", i))
				if i == pos {
					p.Status.Phase = v1.PodPending
				}
				pods = append(pods, p)
			}
			u, err := k8s.CalculatePodsRequestedUsage(pods)
			c.R.Evaluations++
			c.Nontrivial(fmt.Sprint("many/", n, pos))
			wantCPU, wantMem := int64(n-1)*sc+bc, int64(n-1)*sm+bm
			if err != nil || u.Total.MilliCPU != wantCPU || u.Total.Memory != wantMem || u.LargestPendingCPU.MilliCPU != bc || u.LargestPendingMemory.Memory != bm {
				c.Report(h.Found{Violation: h.Violation{Prop: "C13", Sig: "C13/request-total-many-pods", Msg: fmt.Sprintf("%d pods (big pending pod at %d): computed %dm / %dB (largest pending %dm / %dB), definition gives %dm / %dB (largest pending %dm / %dB)",
					n, pos, u.Total.MilliCPU, u.Total.Memory, u.LargestPendingCPU.MilliCPU, u.LargestPendingMemory.Memory, wantCPU, wantMem, bc, bm)}, Scenario: "c13.many", Case: map[string]any{"pods": n, "big_at": pos}})
			}
		}
	}
}

// c13Large: percent for clusters of hundreds of big nodes (memory totals of 25..250 TiB).
func c13Large(c *h.Collector) {
	for _, n := range []int64{100, 400, 1000} {
		for _, pct := range []int64{50, 86, 99, 150} {
			capMem := n * (256 << 30)
			reqMem := capMem / 100 * pct
			capCPU, reqCPU := n*64000, n*640*pct
			req := k8s.PodRequestedUsage{}
			req.Total.MilliCPU, req.Total.Memory = reqCPU, reqMem
			cap := k8s.NodeAvailableCapacity{}
			cap.Total.MilliCPU, cap.Total.Memory = capCPU, capMem
			cp, mp, err := controller.VerifCalcPercentUsage(*req.Total.GetCPUQuantity(), *req.Total.GetMemoryQuantity(), *cap.Total.GetCPUQuantity(), *cap.Total.GetMemoryQuantity(), n)
			c.R.Evaluations++
			c.Nontrivial(fmt.Sprint("large/", n, pct))
			if err != nil || !closeTo(cp, reqCPU, capCPU) || !closeTo(mp, reqMem, capMem) {
				c.Report(h.Found{Violation: h.Violation{Prop: "C13", Sig: "C13/percent-large-cluster", Msg: fmt.Sprintf("%d nodes of 64 cores / 256 GiB at %d %%: computed %v %% / %v %% (err %v)", n, pct, cp, mp, err)}, Scenario: "c13.large", Case: map[string]any{"nodes": n, "percent": pct}})
			}
		}
	}
}

func init() {
	register(&Check{
		ID:    "C13",
		Level: "exploration",
		Rule: "every pod shape of the universe (0..2 containers x 0..2 init containers over a 5-value request alphabet with absent, milli, fractional, binary and decimal notations, overhead on/off: 1922 shapes), every pair / triple over fixed sub-universes, every node multiset of <= 3 over {1000m/4Gi, 3900m/16G, 7.5/7.5Gi, no allocatable}, in every permutation of both lists, each evaluated three times over the same objects, through the real calculators, compared with an independent exact parser; " +
			"end to end: single scans over every order of a mixed node list (untainted, tainted, cordoned, force-tainted, odd sizes) reading the request/capacity/percent gauges; two-scan histories in which a pod is re-created under the same name with another shape; clusters of 100..1000 nodes of 256 GiB; lists of 255..4097 pods; non-trivial = every enumerated multiset; distinct by its members",
		Grid:        c13Grid,
		Assumptions: append([]string{"the quantity alphabet contains no value finer than a millicore or a byte (the statement does not define rounding)", "that the larger of cpu% and mem% drives decisions is decided by C06's memory-driven cases"}, commonAssumptions...),
	})
}
