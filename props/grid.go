package props

import (
	"encoding/json"
	"fmt"
	"testing"

	"verif/explore"
	"verif/h"
)

// RunCase executes one scenario with every choice at its default (no deviation).
func RunCase(t *testing.T, s *h.Scenario) *h.Hist {
	var cur *h.Hist
	ex := &explore.Explorer{Bound: 0}
	ex.Exec = func(ch *explore.Chooser) { h.Run(t, s, ch, func(hh *h.Hist) { cur = hh }) }
	ex.RunPrefix(nil)
	return cur
}

// gridCase runs one grid case, records its violations (with the case description for replay),
// counts it, and returns the finished history.
func gridCase(t *testing.T, c *h.Collector, s *h.Scenario, desc any) *h.Hist {
	hh := RunCase(t, s)
	c.R.Evaluations++
	c.R.Scans += hh.Scans
	for k, v := range hh.Cov {
		c.R.Cov[k] += v
	}
	for _, v := range hh.Viol {
		c.Report(h.Found{Violation: v, Scenario: s.Name, Case: desc, Trace: append([]string(nil), hh.Trace...)})
	}
	if len(c.R.Samples) < 2 && len(hh.Trace) > 0 {
		c.R.Samples = append(c.R.Samples, map[string]any{"case": desc, "trace": hh.Trace})
	}
	return hh
}

// replayGrid builds a ReplayCase function from a typed case builder.
func replayGrid[P any](build func(P) *h.Scenario, monitors func() []h.Monitor) func(t *testing.T, raw []byte) []string {
	return func(t *testing.T, raw []byte) []string {
		var p P
		if err := json.Unmarshal(raw, &p); err != nil {
			return []string{"cannot decode case: " + err.Error()}
		}
		s := build(p)
		s.Monitors = monitors
		hh := RunCase(t, s)
		out := append([]string{fmt.Sprintf("case %+v", p)}, hh.Trace...)
		for _, v := range hh.Viol {
			out = append(out, fmt.Sprintf("VIOLATION property=%s signature=%s: %s", v.Prop, v.Sig, v.Msg))
		}
		return out
	}
}

func seenKeys(hh *h.Hist) []string {
	var out []string
	for _, m := range hh.Monitors {
		switch mm := m.(type) {
		case *Decisions:
			for k := range mm.Seen {
				out = append(out, k)
			}
		case LikeAnyOther:
			for k := range mm.D.Seen {
				out = append(out, k)
			}
		case CordonCount:
			for k := range mm.D.Seen {
				out = append(out, k)
			}
		case *NearMiss:
			for k := range mm.Seen {
				out = append(out, k)
			}
		case *Cooldown:
			for k := range mm.Seen {
				out = append(out, k)
			}
		}
	}
	return out
}
