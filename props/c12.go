package props

import (
	"encoding/json"
	"fmt"
	"os"
	"os/exec"
	"path/filepath"
	"reflect"
	"sort"
	"strings"
	"testing"

	"github.com/atlassian/escalator/pkg/cloudprovider"
	"github.com/atlassian/escalator/pkg/controller"
	v1 "k8s.io/api/core/v1"
	"k8s.io/apimachinery/pkg/api/resource"

	"verif/h"
	"verif/sim"
)

// ---------------------------------------------------------------------------------------------
// C12 — node groups are isolated from each other

// Attribution: every write made while group g is being processed targets a node carrying g's
// label or g's own cloud group.
type Attribution struct{}

func (Attribution) Key() string { return "" }
func (Attribution) AfterScan(ctx *h.ScanCtx) []h.Violation {
	var out []h.Violation
	for _, e := range ctx.Entries {
		if !e.Write() || e.Phase != "group" {
			continue
		}
		byTarget := ctx.EntryGroup(e)
		if byTarget != e.Group {
			out = append(out, h.Violation{Prop: "C12", Sig: "C12/attribution/" + writeKind(e),
				Msg: fmt.Sprintf("scan %d: while processing group %q, %s(%s) targets group %q", ctx.Scan, e.Group, e.Op, e.Target, byTarget)})
		} else {
			ctx.H.Cov["c12.attributed-writes"]++
		}
	}
	// a fleet request made while g is processed is built from g's own ASG subnets and instance types
	for _, e := range ctx.Entries {
		if e.Op != sim.OpCreateFleet || e.Phase != "group" {
			continue
		}
		g := ctx.Group(e.Group)
		if g == nil {
			continue
		}
		a := ctx.H.W.FindASG(g.ASGName)
		if a == nil {
			continue
		}
		var want []string
		for _, sn := range strings.Split(a.Subnets, ",") {
			if len(g.Spec.Opts.AWS.InstanceTypeOverrides) == 0 {
				want = append(want, sn+"/")
			}
			for _, it := range g.Spec.Opts.AWS.InstanceTypeOverrides {
				want = append(want, sn+"/"+it)
			}
		}
		sort.Strings(want)
		ctx.H.Cov["c12.fleet-requests-checked"]++
		if got := e.Extra["override-list"]; got != strings.Join(want, ",") {
			out = append(out, h.Violation{Prop: "C12", Sig: "C12/fleet-request-built-from-another-group",
				Msg: fmt.Sprintf("scan %d: the fleet request made for group %s carries subnets / instance types [%s]; its own ASG and options give [%s]", ctx.Scan, g.Name, got, strings.Join(want, ","))})
		}
	}
	// a not-in-group stop must name the cloud group of the node's own node group
	if ne, ok := ctx.Res.Err.(*cloudprovider.NodeNotInNodeGroup); ok {
		if g, _ := ctx.GroupOfNode(ne.NodeName); g != nil && g.ASGName != ne.NodeGroup {
			out = append(out, h.Violation{Prop: "C12", Sig: "C12/wrong-cloud-group",
				Msg: fmt.Sprintf("scan %d: node %s of group %s (cloud group %s) was looked up in cloud group %s", ctx.Scan, ne.NodeName, g.Name, g.ASGName, ne.NodeGroup)})
		}
	}
	return out
}

// FleetExitAttribution: the documented "give up after three consecutive failed fleet provisionings"
// exit is per node group: the group being processed when the exit is requested must itself have
// failed three times in a row (in this controller lifetime).
type FleetExitAttribution struct{ fails map[string]int }

func (m *FleetExitAttribution) Key() string { return fmt.Sprint(m.fails) }
func (m *FleetExitAttribution) AfterScan(ctx *h.ScanCtx) []h.Violation {
	if m.fails == nil || ctx.Fresh {
		m.fails = map[string]int{}
	}
	var out []h.Violation
	last := ""
	for _, g := range ctx.Groups {
		created, attachedOK, cleaned := false, 0, false
		for _, e := range ctx.Entries {
			if e.Phase != "group" || e.Group != g.Name {
				continue
			}
			switch e.Op {
			case sim.OpCreateFleet:
				created = created || e.Err == ""
			case sim.OpAttach:
				if e.Err == "" {
					attachedOK++
				}
			case sim.OpTermIns:
				cleaned = true
				last = g.Name
			}
		}
		switch {
		case created && cleaned:
			m.fails[g.Name]++
		case created && attachedOK > 0:
			m.fails[g.Name] = 0
		}
	}
	if ctx.Res.Exit && last != "" {
		ctx.H.Cov["c12.fleet-give-up-exits"]++
		if m.fails[last] < 3 {
			out = append(out, h.Violation{Prop: "C12", Sig: "C12/exit-on-other-groups-failures",
				Msg: fmt.Sprintf("scan %d: escalator gave up (exit) while processing group %s after only %d consecutive failed fleet provisionings of that group; failures of other groups were counted against it (%v)", ctx.Scan, last, m.fails[last], m.fails)})
		}
	}
	return out
}

// OwnPodsAndNodes: "each group is evaluated only from nodes carrying its label and pods selecting it".
// Every disagreement between a scan and the reference decision computed from exactly those pods and
// nodes (as listed now) is reported as a C12 violation.
type OwnPodsAndNodes struct{ D *Decisions }

func (m OwnPodsAndNodes) Key() string { return m.D.Key() }
func (m OwnPodsAndNodes) AfterScan(ctx *h.ScanCtx) []h.Violation {
	var out []h.Violation
	inner := m.D.AfterScan(ctx)
	for k, on := range ctx.H.SlotFlags {
		if on && strings.HasPrefix(k, "describe-omits:") {
			// this scan's refresh answer left a cloud group out: the provider legitimately works on what
			// it had cached, which the reference (computed on the cloud as it is) does not model
			return nil
		}
	}
	for _, v := range inner {
		if strings.Contains(v.Sig, "float-equality") {
			continue
		}
		out = append(out, h.Violation{Prop: "C12", Sig: "C12/not-evaluated-from-its-own-pods-and-nodes/" + v.Sig, Msg: v.Msg})
	}
	return out
}

// AllGroupsProcessed: unless the scan ends with an error (the documented stops), every configured
// group is processed in every scan, however long the groups before it took.
type AllGroupsProcessed struct{}

func (AllGroupsProcessed) Key() string { return "" }
func (AllGroupsProcessed) AfterScan(ctx *h.ScanCtx) []h.Violation {
	if ctx.Res.Err != nil || ctx.Res.Panic != nil || ctx.Res.Killed || ctx.Res.Exit || ctx.Res.Hang {
		return nil
	}
	var out []h.Violation
	seen := map[string]bool{}
	for _, e := range ctx.Entries {
		if e.Phase == "group" {
			seen[e.Group] = true
		}
	}
	for _, g := range ctx.Groups {
		if !seen[g.Name] {
			out = append(out, h.Violation{Prop: "C12", Sig: "C12/group-not-processed",
				Msg: fmt.Sprintf("scan %d: the scan ended without an error but group %s was never processed (no pod / node listing for it)", ctx.Scan, g.Name)})
		}
	}
	return out
}

// NonInterference compares the journal of every group other than the perturbed one with the
// journal of the unperturbed (root) execution of the same scenario, scan by scan.
type NonInterference struct {
	S       *h.Scenario
	Perturb string
	stopped bool
}

func (m *NonInterference) Key() string { return "" }
func (m *NonInterference) AfterScan(ctx *h.ScanCtx) []h.Violation {
	base, _ := m.S.Shared["base"].([]h.ScanSummary)
	if base == nil || m.stopped {
		return nil
	}
	i := len(ctx.H.Summaries) - 1
	if i >= len(base) {
		return nil
	}
	cur := ctx.H.Summaries[i]
	if base[i].Fatal && !cur.Fatal {
		// the unperturbed execution stopped here (documented exit); nothing to compare from now on
		m.stopped = true
		return nil
	}
	if cur.Fatal {
		m.stopped = true
		// only the documented not-in-group condition may stop the loop; any other error returned by
		// the scan means a failure inside one group kept later groups from being processed
		if err := ctx.Res.Err; err != nil {
			nn, ok := err.(*cloudprovider.NodeNotInNodeGroup)
			if !ok {
				return []h.Violation{{Prop: "C12", Sig: "C12/failure-not-contained/scan-aborted",
					Msg: fmt.Sprintf("scan %d: the scan returned %q and stopped processing node groups", ctx.Scan, err.Error())}}
			}
			// a cloud group that began the scan at (or below) its minimum refuses every removal with an
			// ordinary error before it looks at membership; the fatal stop cannot come from it
			// (judged on the cloud group as the scan's refresh reported it: not when that refresh's answer
			// left the group out and the provider went on with what it had cached)
			if g := ctx.GroupOfASG(nn.NodeGroup); g != nil && g.CloudDesired <= g.CloudMin && !ctx.H.SlotFlags["describe-omits:"+nn.NodeGroup] {
				return []h.Violation{{Prop: "C12", Sig: "C12/failure-not-contained/minimum-refusal-became-fatal",
					Msg: fmt.Sprintf("scan %d: cloud group %s began the scan with desired %d <= minimum %d, so its removal request is refused with the ordinary minimum-size error; instead the scan stopped with %q and later groups were not processed", ctx.Scan, nn.NodeGroup, g.CloudDesired, g.CloudMin, err.Error())}}
			}
		}
		if ctx.Res.Panic != nil {
			return []h.Violation{{Prop: "C12", Sig: "C12/failure-not-contained/panic",
				Msg: fmt.Sprintf("scan %d: a failure while one group was processed made the scan panic (%v): later groups were not processed", ctx.Scan, ctx.Res.Panic)}}
		}
		return nil
	}
	var out []h.Violation
	for _, g := range ctx.Groups {
		if g.Name == m.Perturb {
			continue
		}
		x, y := cur.ByGroup[g.Name], base[i].ByGroup[g.Name]
		if !reflect.DeepEqual(x, y) {
			sig := "C12/interference"
			if ctx.Faulted {
				sig = "C12/failure-not-contained"
			}
			out = append(out, h.Violation{Prop: "C12", Sig: sig,
				Msg: fmt.Sprintf("scan %d: group %s did %v, but %v in the world that differs only inside group %s", ctx.Scan, g.Name, x, y, m.Perturb)})
			m.stopped = true
		} else if len(x) > 0 {
			ctx.H.Cov["c12.other-group-active-scans-compared"]++
		}
	}
	return out
}

func C12Scenarios(tier string) []*h.Scenario {
	mk := func(name string, order []string) *h.Scenario {
		specs := map[string]h.GroupSpec{"a": StdGroup("a"), "b": StdGroup("b"), "default": StdGroup(controller.DefaultNodeGroup)}
		var groups []h.GroupSpec
		for _, n := range order {
			groups = append(groups, specs[n])
		}
		a := specs["a"]
		s := &h.Scenario{Name: name, Groups: groups, Slots: 6, Quantum: Q, MaxEventsPerSlot: 2, Shared: map[string]any{}}
		s.Init = func(hh *h.Hist) {
			asgs := InitASGs(hh)
			for i, g := range groups {
				as := asgs[i]
				switch g.Opts.Name {
				case "a":
					c11World(hh, as, g)
					// a sizeable pod that selects no configured group (it may be re-created selecting a)
					hh.W.AddPod(sim.PodOpt{CPUMilli: 2500, MemBytes: 64 << 20, Selector: map[string]string{"team": "somebody-else"}})
				case "b":
					// b scales down: taints, then reaps after the soft grace period
					n := hh.W.AddNode(as, sim.NodeOpt{Age: 30 * Q})
					hh.W.AddPod(podOn(g, n.Name, 150))
					hh.W.AddNode(as, sim.NodeOpt{Age: 31 * Q})
					hh.W.AddNode(as, sim.NodeOpt{Age: 32 * Q, TaintAge: dp(1 * Q)})
				default:
					// the default group is overloaded: scales up, then sits in its cool-down
					n := hh.W.AddNode(as, sim.NodeOpt{Age: 40 * Q})
					hh.W.AddPod(podOn(g, n.Name, 900))
					hh.W.AddPod(podOn(g, "", 900))
				}
			}
		}
		names := initialNames(a.ASG.Name, 5)
		other := specs["b"]
		s.Events = func(hh *h.Hist, slot int) []h.Event {
			ev := append(fixedNodeEvents(a, names), evDescInsDown())
			// pods of a that mention b's label value only in a NotIn expression (they select a by node selector)
			// the Kubernetes node of an instance that is no longer in a's ASG lingers, tainted and past its
			// grace period, while the ASG sits at its minimum: removal is refused ("min sized reached"),
			// an ordinary error that must not keep later groups from being processed
			ev = append(ev, h.Event{Label: "lingering-node(a)+asg-at-minimum", Apply: func(hh *h.Hist) {
				other := hh.W.FindASG("asg-other-a")
				if other == nil {
					other = hh.W.AddASG(sim.ASG{Name: "asg-other-a", Min: 0, Max: 5, LabelKey: a.Opts.LabelKey, LabelValue: a.Opts.LabelValue})
				}
				if len(other.Instances) == 0 {
					hh.W.AddNode(other, sim.NodeOpt{Age: 50 * Q, TaintAge: dp(5 * Q)})
				}
				if as := hh.W.FindASG(a.ASG.Name); as != nil {
					as.Min = as.Desired
				}
			}})
			ev = append(ev, evDescribeOmits(a.ASG.Name))
			// a node carrying a's label whose instance sits in the ASG of the other configured group b
			// (mislabelled): due for removal in a, it is not a member of a's cloud group
			ev = append(ev, h.Event{Label: "mislabelled-node(label a, instance in b's ASG)", Apply: func(hh *h.Hist) {
				bASG := hh.W.FindASG(other.ASG.Name)
				if bASG == nil {
					return
				}
				for _, n := range hh.W.Nodes {
					if n.Labels["mislabelled"] == "yes" {
						return
					}
				}
				n := hh.W.AddNode(bASG, sim.NodeOpt{Age: 50 * Q, TaintAge: dp(5 * Q)})
				bASG.Desired-- // b's desired capacity stays what it was (the instance is surplus to it): b's world is unchanged
				n.Labels[a.Opts.LabelKey] = a.Opts.LabelValue
				n.Labels["mislabelled"] = "yes"
			}})
			// a pod deleted and re-created under the same name between two scans: the largest pod of a now
			// selects no configured group / a pod that selected none now selects a
			ev = append(ev, h.Event{Label: "pod-recreated-same-name(a -> no group)", Apply: func(hh *h.Hist) {
				var big *v1.Pod
				for _, p := range hh.W.Pods {
					if h.PodInGroup(p, &a) && (big == nil || p.Spec.Containers[0].Resources.Requests.Cpu().MilliValue() > big.Spec.Containers[0].Resources.Requests.Cpu().MilliValue()) {
						big = p
					}
				}
				if big != nil {
					big.Spec.NodeSelector = map[string]string{"team": "somebody-else"}
					big.Spec.Affinity = nil
					big.UID = big.UID + "x"
				}
			}}, h.Event{Label: "pod-recreated-same-name(no group -> a)", Apply: func(hh *h.Hist) {
				for _, p := range hh.W.Pods {
					if p.Spec.NodeSelector["team"] == "somebody-else" {
						p.Spec.NodeSelector = sel(a)
						p.UID = p.UID + "y"
						return
					}
				}
			}})
			ev = append(ev, h.Event{Label: "burst(a, affinity NotIn b)", Apply: func(hh *h.Hist) {
				for i := 0; i < 3; i++ {
					o := affinityPod(other, "", 1500, true)
					o.Selector = sel(a)
					hh.W.AddPod(o)
				}
			}})
			return ev
		}
		// non-fatal failures confined to group a: any call made while a is being processed
		s.FaultOps = map[string]bool{sim.OpK8sGet: true, sim.OpK8sUpdate: true, sim.OpK8sDelete: true, sim.OpTerminate: true, sim.OpSetDesired: true, sim.OpListPods: true, sim.OpListNodes: true}
		s.FaultFilter = func(hh *h.Hist, op, target string) bool { return hh.W.CurrentGroup() == "a" }
		s.Prepare = func(t *testing.T, s *h.Scenario) {
			if s.Shared["base"] != nil {
				return
			}
			base := *s
			base.Prepare, base.Twin = nil, nil
			base.Monitors = nil
			hh := RunCase(t, &base)
			s.Shared["base"] = hh.Summaries
		}
		return s
	}
	// b has no nodes and has never seen one: its scale-up from zero must not depend on a's nodes
	empty := func(name string, order []string) *h.Scenario {
		s := mk(name, order)
		for i := range s.Groups {
			if s.Groups[i].Opts.Name == "b" {
				s.Groups[i].Opts.MinNodes = 0 // a group may only sit at zero nodes with min_nodes 0
			}
		}
		inner := s.Init
		groups := s.Groups
		s.Init = func(hh *h.Hist) {
			inner(hh)
			for i, g := range groups {
				if g.Opts.Name != "b" {
					continue
				}
				// remove b's nodes and instances, leave pending pods selecting b
				a := hh.W.FindASG(g.ASG.Name)
				for _, in := range a.Instances {
					delete(hh.W.EC2, in.ID)
				}
				a.Instances, a.Desired = nil, 0
				kept := hh.W.Nodes[:0:0]
				for _, n := range hh.W.Nodes {
					if n.Labels[g.Opts.LabelKey] != g.Opts.LabelValue {
						kept = append(kept, n)
					}
				}
				hh.W.Nodes = kept
				pk := hh.W.Pods[:0:0]
				for _, p := range hh.W.Pods {
					if !h.PodInGroup(p, &groups[i]) {
						pk = append(pk, p)
					}
				}
				hh.W.Pods = pk
				hh.W.AddPod(podOn(g, "", 2500))
			}
		}
		ga := s.Groups[0]
		for _, g := range s.Groups {
			if g.Opts.Name == "a" {
				ga = g
			}
		}
		innerEv := s.Events
		s.Events = func(hh *h.Hist, slot int) []h.Event {
			var ev []h.Event
			for _, e := range innerEv(hh, slot) {
				// here b scales up from zero on its own ASG's numbers: an extra instance in that ASG would be
				// a change inside b, not inside a
				if !strings.HasPrefix(e.Label, "mislabelled-node(") {
					ev = append(ev, e)
				}
			}
			ev = append(ev, h.Event{Label: "resize-first-node(a,4000m)", Apply: func(hh *h.Hist) {
				for _, n := range groupNodes(hh, ga, 1) {
					n.Status.Allocatable = v1.ResourceList{
						v1.ResourceCPU:    *resource.NewMilliQuantity(4000, resource.DecimalSI),
						v1.ResourceMemory: *resource.NewQuantity(16<<30, resource.BinarySI),
					}
				}
			}})
			for _, cpu := range []int64{4000, 250} {
				c := cpu
				ev = append(ev, h.Event{Label: fmt.Sprintf("register-node(a,%dm)", c), Apply: func(hh *h.Hist) {
					if a := hh.W.FindASG(ga.ASG.Name); a != nil && a.Desired < a.Max {
						hh.W.AddNode(a, sim.NodeOpt{CPUMilli: c, MemBytes: 1 << 30})
					}
				}})
			}
			return ev
		}
		return s
	}
	// two groups in fleet mode whose instances never become ready: every scale-up fails and is cleaned up
	fleet := func() *h.Scenario {
		ga, gb := StdGroup("a"), StdGroup("b")
		for _, g := range []*h.GroupSpec{&ga, &gb} {
			g.Opts.AWS.LaunchTemplateID, g.Opts.AWS.LaunchTemplateVersion = "lt-1", "1"
		}
		// the same launch template, but each group has its own subnets and instance types
		ga.ASG.Subnets, gb.ASG.Subnets = "subnet-a", "subnet-b,subnet-c"
		ga.Opts.AWS.InstanceTypeOverrides, gb.Opts.AWS.InstanceTypeOverrides = []string{"m5.large"}, []string{"c5.large", "c5.xlarge"}
		s := &h.Scenario{Name: "c12.fleet-two", Groups: []h.GroupSpec{ga, gb}, Slots: 5, Quantum: Q, MaxEventsPerSlot: 2, Shared: map[string]any{}}
		s.Init = func(hh *h.Hist) {
			hh.W.ReadyFromPoll = -1
			for i, as := range InitASGs(hh) {
				g := s.Groups[i]
				n := hh.W.AddNode(as, sim.NodeOpt{Age: 20 * Q})
				hh.W.AddPod(podOn(g, n.Name, 900))
				hh.W.AddPod(podOn(g, "", 900))
			}
		}
		s.Events = func(hh *h.Hist, slot int) []h.Event {
			return []h.Event{evClearAllPods(ga), evBurst(ga, 1, 900), evClearAllPods(gb), evBurst(gb, 1, 900),
				{Label: "instances-become-ready", Apply: func(hh *h.Hist) { hh.W.ReadyFromPoll = 1 }},
				{Label: "instances-never-ready", Apply: func(hh *h.Hist) { hh.W.ReadyFromPoll = -1 }}}
		}
		return s
	}
	// the same with a fleet ready timeout as long as the scan interval (the documented defaults: 1m / 1m):
	// the first group's failing scale-up takes a whole interval, the second group is processed all the same
	fleetSlow := func() *h.Scenario {
		s := fleet()
		s.Name = "c12.fleet-two.timeout-equals-scan-interval"
		s.FleetTimeout = Q
		s.Slots = 3
		return s
	}
	// group a selects by a label key in a reserved Kubernetes domain; the default group must not pick up a's pods
	reserved := func() *h.Scenario {
		s := mk("c12.reserved-key-default", []string{"a", "default"})
		for i := range s.Groups {
			if s.Groups[i].Opts.Name == "a" {
				s.Groups[i].Opts.LabelKey = "kops.k8s.io/instancegroup"
				s.Groups[i].ASG.LabelKey = "kops.k8s.io/instancegroup"
			}
		}
		ga := s.Groups[0]
		names := initialNames(ga.ASG.Name, 5)
		s.Events = func(hh *h.Hist, slot int) []h.Event { return fixedNodeEvents(ga, names) }
		inner := s.Init
		groups := s.Groups
		s.Init = func(hh *h.Hist) {
			// mk's Init builds the worlds from the group specs captured at construction; rebuild a's part with the new key
			inner(hh)
			for _, n := range hh.W.Nodes {
				if v, ok := n.Labels["customer"]; ok && v == "a" {
					delete(n.Labels, "customer")
					n.Labels["kops.k8s.io/instancegroup"] = "a"
				}
			}
			for _, p := range hh.W.Pods {
				if v, ok := p.Spec.NodeSelector["customer"]; ok && v == "a" {
					p.Spec.NodeSelector = sel(groups[0])
				}
			}
		}
		return s
	}
	return []*h.Scenario{
		reserved(),
		fleet(),
		fleetSlow(),
		empty("c12.a-emptyb", []string{"a", "b"}),
		mk("c12.a-b", []string{"a", "b"}),
		mk("c12.b-a", []string{"b", "a"}),
		mk("c12.a-default-b", []string{"a", "default", "b"}),
		mk("c12.default-a", []string{"default", "a"}),
	}
}

// c12ProviderMapping: the cloud-provider configuration cmd/main.go derives for each group depends on
// that group's options only. The build-tagged probe in /repo/cmd runs the real setupCloudProvider over
// multi-group files (a launch-template group next to plain groups, every order); each group's derived
// configuration must equal the harness's per-group restatement.
func c12ProviderMapping(t *testing.T, tier string, shard, shards int, c *h.Collector) {
	if shard != 0 {
		return
	}
	lt := c16Baseline()
	lt.set("name", "lt")
	lt["aws"] = cfg{"lifecycle": "spot", "launch_template_id": "lt-123", "launch_template_version": "7", "fleet_instance_ready_timeout": "90s",
		"instance_type_overrides": []string{"t2.large", "t3.large"}, "resource_tagging": true}
	plain := cfg{}
	for k, v := range c16Baseline() {
		if k != "aws" {
			plain[k] = v
		}
	}
	plain["name"] = "plain"
	other := c16Baseline()
	other.set("name", "other")
	other["aws"] = cfg{"lifecycle": "on-demand", "launch_template_id": "lt-999", "launch_template_version": "1", "instance_type_overrides": []string{"c5.large"}}
	all := []cfg{lt, plain, other}
	for _, order := range perms(len(all)) {
		dir, err := os.MkdirTemp("", "verif-c12-map")
		if err != nil {
			c.R.HarnessError = err.Error()
			return
		}
		var gs []any
		var names []string
		for _, i := range order {
			gs = append(gs, all[i])
			names = append(names, all[i]["name"].(string))
		}
		body, _ := json.Marshal(map[string]any{"node_groups": gs})
		os.WriteFile(filepath.Join(dir, "map.cfg"), body, 0o644)
		args := []string{"test", "-tags", "verif", "-vet=off", "-count=1", "-v", "-run", "^TestVerifStartupGate$"}
		if ov := os.Getenv("VERIF_OVERLAY"); ov != "" {
			args = append(args, "-overlay", ov)
		}
		args = append(args, "./cmd")
		cmd := exec.Command(env("VERIF_GO", "go1.26.8"), args...)
		cmd.Dir = "/repo"
		cmd.Env = append(os.Environ(), "VERIF_GATE_DIR="+dir)
		out, runErr := cmd.CombinedOutput()
		os.RemoveAll(dir)
		seen := false
		for _, line := range strings.Split(string(out), "\n") {
			if !strings.HasPrefix(line, "VERIF-MAP ") {
				continue
			}
			var got []cloudprovider.NodeGroupConfig
			if json.Unmarshal([]byte(strings.TrimPrefix(line, "VERIF-MAP ")), &got) != nil {
				continue
			}
			seen = true
			opts, derr := decode(string(body))
			if derr != nil {
				c.R.HarnessError = "c12 mapping file does not decode: " + derr.Error()
				return
			}
			var specs []h.GroupSpec
			for _, o := range opts {
				specs = append(specs, h.GroupSpec{Opts: o})
			}
			want := h.ProviderConfigs(specs, 0)
			for i := range want {
				want[i].AWSConfig.FleetInstanceReadyTimeout = opts[i].AWS.FleetInstanceReadyTimeoutDuration()
			}
			c.R.Evaluations++
			c.Nontrivial(fmt.Sprint("provider-mapping/", names))
			for i := range want {
				if i >= len(got) || !reflect.DeepEqual(got[i], want[i]) {
					var g any
					if i < len(got) {
						g = got[i]
					}
					c.Report(h.Found{Violation: h.Violation{Prop: "C12", Sig: "C12/provider-configuration-depends-on-other-groups",
						Msg: fmt.Sprintf("groups %v: setupCloudProvider derives %+v for group %s; from that group's own options it is %+v", names, g, names[i], want[i])}, Scenario: "c12.provider-mapping", Case: names})
				}
			}
		}
		if !seen {
			c.R.HarnessError = fmt.Sprintf("start-up probe produced no mapping (err %v): %s", runErr, tailStr(string(out), 1200))
			return
		}
	}
}

func init() {
	register(&Check{
		ID:    "C12",
		Level: "model_checking",
		Rule: "deviation-bounded DFS over 6-scan histories of 2 and 3 node groups (one named default, every processing order) in which only group a is perturbed (pods, cordons, taints, and a failure of any call or lister made while a is processed); every other group's per-scan journal is compared with the unperturbed execution; " +
			"non-trivial = scans in which another group acted and was compared; distinct = distinct perturbed histories' outcome traces (counted via slot/class keys of group a)",
		Scenarios: C12Scenarios,
		Grid:      c12ProviderMapping,
		MonitorsFor: func(s *h.Scenario) []h.Monitor {
			if strings.HasPrefix(s.Name, "c12.fleet-two") {
				return []h.Monitor{Attribution{}, &FleetExitAttribution{}, AllGroupsProcessed{}, &NearMiss{Seen: map[string]struct{}{}}}
			}
			return []h.Monitor{Attribution{}, &FleetExitAttribution{}, &NonInterference{S: s, Perturb: "a"}, OwnPodsAndNodes{NewDecisions()}, AllGroupsProcessed{}, &NearMiss{Seen: map[string]struct{}{}}}
		},
		Bound: func(tier string) int {
			if tier == "thorough" {
				return 3
			}
			return 2
		},
		Nontrivial:  seenKeys,
		Assumptions: append([]string{"group a scales with SetDesiredCapacity (zero virtual time); a fleet attach in a takes 1-3 virtual seconds, which legitimately moves b's reaper clock and is not interference"}, commonAssumptions...),
		Alphabet:    []string{"pod-start/finish(a.i)", "cordon(a.i)", "force-taint(a.i)", "ext-taint(a.i, now-5q)", "burst(a)", "clear-pods(a)", "ec2-describe-instances-down", "register-node(a, odd size)", "resize-first-node(a)", "lingering-node(a)+asg-at-minimum", "describe-answers-without(asg of a)", "fail at any k8s/AWS call or lister while a is processed"},
	})
}
