// Package props holds, per property, the scenario (alphabet, bounds) and the monitor (oracle).
package props

import (
	"fmt"
	"strings"
	"time"

	"github.com/atlassian/escalator/pkg/controller"
	v1 "k8s.io/api/core/v1"

	"verif/h"
	"verif/sim"
)

// Q is the scan interval and the unit of every configured duration.
const Q = 60 * time.Second

func dur(n int) string { return fmt.Sprintf("%dm", n) }

// StdOpts is the standard small configuration S of DESIGN.md §3.
func StdOpts(name string) controller.NodeGroupOptions {
	return controller.NodeGroupOptions{
		Name:                               name,
		LabelKey:                           "customer",
		LabelValue:                         name,
		CloudProviderGroupName:             "asg-" + name,
		MinNodes:                           1,
		MaxNodes:                           6,
		TaintLowerCapacityThresholdPercent: 10,
		TaintUpperCapacityThresholdPercent: 40,
		ScaleUpThresholdPercent:            70,
		SlowNodeRemovalRate:                1,
		FastNodeRemovalRate:                2,
		SoftDeleteGracePeriod:              dur(2),
		HardDeleteGracePeriod:              dur(4),
		ScaleUpCoolDownPeriod:              dur(2),
	}
}

// StdGroup pairs StdOpts with an ASG (cloud min 0, cloud max 8: deliberately not max_nodes).
func StdGroup(name string) h.GroupSpec {
	o := StdOpts(name)
	return h.GroupSpec{Opts: o, ASG: sim.ASG{Name: o.CloudProviderGroupName, Min: 0, Max: 8, LabelKey: o.LabelKey, LabelValue: o.LabelValue, CPUMilli: 1000, MemBytes: 4 << 30}}
}

// InitASGs creates the scenario's ASGs in the world and returns them in group order.
func InitASGs(hh *h.Hist) []*sim.ASG {
	var out []*sim.ASG
	for _, g := range hh.S.Groups {
		out = append(out, hh.W.AddASG(g.ASG))
	}
	return out
}

func sel(g h.GroupSpec) map[string]string {
	if g.Opts.Name == controller.DefaultNodeGroup {
		return nil
	}
	return map[string]string{g.Opts.LabelKey: g.Opts.LabelValue}
}

func sp(s string) *string               { return &s }
func dp(d time.Duration) *time.Duration { return &d }
func podOn(g h.GroupSpec, node string, cpu int64) sim.PodOpt {
	return sim.PodOpt{Node: node, CPUMilli: cpu, MemBytes: 64 << 20, Selector: sel(g)}
}

// ---------------------------------------------------------------------------------------------
// event library: every constructor returns deviations instantiated on the current world

// groupNodes returns the API-store nodes carrying the group's label, in store order, capped.
func groupNodes(hh *h.Hist, g h.GroupSpec, cap int) []*v1.Node {
	var out []*v1.Node
	for _, n := range hh.W.Nodes {
		if n.Labels[g.Opts.LabelKey] == g.Opts.LabelValue {
			out = append(out, n)
			if len(out) == cap {
				break
			}
		}
	}
	return out
}

func evPodStart(g h.GroupSpec, node string, cpu int64) h.Event {
	return h.Event{Label: fmt.Sprintf("pod-start(%s,%dm)", node, cpu), Apply: func(hh *h.Hist) { hh.W.AddPod(podOn(g, node, cpu)) }}
}

// affinityPod: a pod selected into the group by its second required node-affinity term (the first
// names another value), or — with notIn — not selected at all: it only mentions the group's value
// in a NotIn expression.
func affinityPod(g h.GroupSpec, node string, cpu int64, notIn bool) sim.PodOpt {
	o := sim.PodOpt{Node: node, CPUMilli: cpu, MemBytes: 64 << 20}
	terms := []v1.NodeSelectorTerm{
		{MatchExpressions: []v1.NodeSelectorRequirement{{Key: g.Opts.LabelKey, Operator: v1.NodeSelectorOpIn, Values: []string{"some-other-group"}}}},
		{MatchExpressions: []v1.NodeSelectorRequirement{{Key: g.Opts.LabelKey, Operator: v1.NodeSelectorOpIn, Values: []string{g.Opts.LabelValue}}}},
	}
	if notIn {
		terms = []v1.NodeSelectorTerm{{MatchExpressions: []v1.NodeSelectorRequirement{{Key: g.Opts.LabelKey, Operator: v1.NodeSelectorOpNotIn, Values: []string{g.Opts.LabelValue}}}}}
	}
	o.Affinity = &v1.Affinity{NodeAffinity: &v1.NodeAffinity{RequiredDuringSchedulingIgnoredDuringExecution: &v1.NodeSelector{NodeSelectorTerms: terms}}}
	return o
}

func evPodStartAffinity(g h.GroupSpec, node string, cpu int64) h.Event {
	return h.Event{Label: fmt.Sprintf("pod-start-by-affinity(%s,%dm)", node, cpu), Apply: func(hh *h.Hist) { hh.W.AddPod(affinityPod(g, node, cpu, false)) }}
}

func evPodFinish(g h.GroupSpec, node string) h.Event {
	return h.Event{Label: "pod-finish(" + node + ")", Apply: func(hh *h.Hist) {
		for i, p := range hh.W.Pods {
			if p.Spec.NodeName == node && h.PodInGroup(p, &g) {
				hh.W.RemovePod(i)
				return
			}
		}
	}}
}

func evDaemonSet(g h.GroupSpec, node string) h.Event {
	return h.Event{Label: "ds(" + node + ")", Apply: func(hh *h.Hist) {
		o := podOn(g, node, 50)
		o.DaemonSet = true
		hh.W.AddPod(o)
	}}
}

func evBurst(g h.GroupSpec, k int, cpu int64) h.Event {
	return h.Event{Label: fmt.Sprintf("burst(%s,%dx%dm)", g.Opts.Name, k, cpu), Apply: func(hh *h.Hist) {
		for i := 0; i < k; i++ {
			hh.W.AddPod(podOn(g, "", cpu))
		}
	}}
}

func evClearPending(g h.GroupSpec) h.Event {
	return h.Event{Label: "clear-pending(" + g.Opts.Name + ")", Apply: func(hh *h.Hist) {
		kept := hh.W.Pods[:0:0]
		for _, p := range hh.W.Pods {
			if p.Spec.NodeName == "" && h.PodInGroup(p, &g) {
				continue
			}
			kept = append(kept, p)
		}
		hh.W.Pods = kept
	}}
}

func evClearAllPods(g h.GroupSpec) h.Event {
	return h.Event{Label: "clear-pods(" + g.Opts.Name + ")", Apply: func(hh *h.Hist) {
		kept := hh.W.Pods[:0:0]
		for _, p := range hh.W.Pods {
			if h.PodInGroup(p, &g) {
				continue
			}
			kept = append(kept, p)
		}
		hh.W.Pods = kept
	}}
}

func evCordon(node string, on bool) h.Event {
	l := "cordon(" + node + ")"
	if !on {
		l = "uncordon(" + node + ")"
	}
	return h.Event{Label: l, Apply: func(hh *h.Hist) {
		if n := hh.W.FindNode(node); n != nil {
			n.Spec.Unschedulable = on
		}
	}}
}

func setTaint(n *v1.Node, key, value string) {
	for i := range n.Spec.Taints {
		if n.Spec.Taints[i].Key == key {
			n.Spec.Taints[i].Value = value
			return
		}
	}
	n.Spec.Taints = append(n.Spec.Taints, v1.Taint{Key: key, Value: value, Effect: v1.TaintEffectNoSchedule})
}

func dropTaint(n *v1.Node, key string) {
	kept := n.Spec.Taints[:0:0]
	for _, t := range n.Spec.Taints {
		if t.Key != key {
			kept = append(kept, t)
		}
	}
	n.Spec.Taints = kept
}

// evExtTaint sets the escalator taint externally. value is literal unless it starts with "now",
// in which case "now-<k>q" / "now+<k>q" is resolved against the virtual clock.
func evExtTaint(node, value string) h.Event {
	return h.Event{Label: "ext-taint(" + node + "," + value + ")", Apply: func(hh *h.Hist) {
		n := hh.W.FindNode(node)
		if n == nil {
			return
		}
		v := value
		if value == "nowms" {
			v = fmt.Sprint(time.Now().UnixMilli())
		} else if strings.HasPrefix(value, "now") {
			var k int
			fmt.Sscanf(strings.TrimSuffix(value[3:], "q"), "%d", &k)
			v = fmt.Sprint(time.Now().Add(time.Duration(k) * Q).Unix())
		}
		setTaint(n, h.TaintKey, v)
	}}
}

func evExtUntaint(node string) h.Event {
	return h.Event{Label: "ext-untaint(" + node + ")", Apply: func(hh *h.Hist) {
		if n := hh.W.FindNode(node); n != nil {
			dropTaint(n, h.TaintKey)
		}
	}}
}

func evForceTaint(node string) h.Event {
	return h.Event{Label: "force-taint(" + node + ")", Apply: func(hh *h.Hist) {
		if n := hh.W.FindNode(node); n != nil {
			setTaint(n, h.ForceTaintKey, "x")
		}
	}}
}

func evAnnotate(node, v string) h.Event {
	return h.Event{Label: "annotate(" + node + "," + v + ")", Apply: func(hh *h.Hist) {
		if n := hh.W.FindNode(node); n != nil {
			if v == "<remove>" {
				delete(n.Annotations, h.NoDeleteKey)
				return
			}
			if n.Annotations == nil {
				n.Annotations = map[string]string{}
			}
			n.Annotations[h.NoDeleteKey] = v
		}
	}}
}

// evRegisterNode: one more instance joins the group's ASG and registers its Node right away.
func evRegisterNode(g h.GroupSpec) h.Event {
	return h.Event{Label: "register-node(" + g.Opts.Name + ")", Apply: func(hh *h.Hist) {
		if a := hh.W.FindASG(g.ASG.Name); a != nil && a.Desired < a.Max {
			hh.W.AddNode(a, sim.NodeOpt{})
		}
	}}
}

// evRejectNode: the API rejects every call on this node during the coming scan.
func evRejectNode(node string) h.Event {
	return h.Event{Label: "api-rejects(" + node + ")", Apply: func(hh *h.Hist) { hh.SlotFlags["reject:"+node] = true }}
}

// evRefreshFails: the cloud provider refresh at the head of the coming scan fails once.
func evRefreshFails() h.Event {
	return h.Event{Label: "refresh-fails-once", Apply: func(hh *h.Hist) { hh.SlotFlags["refresh-fail"] = true }}
}

// evRefreshDown: every cloud provider refresh of the coming scan fails (the rebuilds in between succeed).
func evRefreshDown() h.Event {
	return h.Event{Label: "every-refresh-of-this-scan-fails", Apply: func(hh *h.Hist) { hh.SlotFlags["refresh-down"] = true }}
}

// evConcurrentWrite: another client changes the node (adds a foreign taint and a label) between
// escalator's next read of it and the write that follows.
func evConcurrentWrite(node string) h.Event {
	return h.Event{Label: "another-client-writes-between-get-and-update(" + node + ")", Apply: func(hh *h.Hist) {
		hh.W.AfterGet[node] = func(n *v1.Node) {
			n.Spec.Taints = append(n.Spec.Taints, v1.Taint{Key: "example.com/maintenance", Value: "soon", Effect: v1.TaintEffectNoSchedule})
			if n.Labels == nil {
				n.Labels = map[string]string{}
			}
			n.Labels["example.com/touched"] = "yes"
		}
	}}
}

// evPodRecreatedSelecting: a pod that selected no configured group ("team: somebody-else") is deleted
// and re-created under the same name, now selecting the group (wherever it is bound).
func evPodRecreatedSelecting(g h.GroupSpec) h.Event {
	return h.Event{Label: "pod-recreated-same-name(no group -> " + g.Opts.Name + ")", Apply: func(hh *h.Hist) {
		for _, p := range hh.W.Pods {
			if p.Spec.NodeSelector["team"] == "somebody-else" {
				p.Spec.NodeSelector = sel(g)
				p.UID = p.UID + "r"
				return
			}
		}
	}}
}

// evDescribeOmits: during the coming scan every refresh gets a successful DescribeAutoScalingGroups
// answer that leaves the ASG out (a partial answer; provider rebuilds are answered in full).
func evDescribeOmits(asg string) h.Event {
	return h.Event{Label: "describe-answers-without(" + asg + ")", Apply: func(hh *h.Hist) { hh.SlotFlags["describe-omits:"+asg] = true }}
}

// evReplaceInstance: the ASG replaces the instance behind the node; the new machine registers a fresh
// node (under the old name when keepName is set).
func evReplaceInstance(node string, keepName bool) h.Event {
	label := "instance-replaced(" + node + ")"
	if keepName {
		label = "instance-replaced-same-node-name(" + node + ")"
	}
	return h.Event{Label: label, Apply: func(hh *h.Hist) { hh.W.ReplaceInstance(node, keepName) }}
}

// evVanishFromStore: the Node object disappears from the API server right after the informer view
// was taken (the scan still lists it; every call on it answers NotFound).
func evVanishFromStore(node string) h.Event {
	return h.Event{Label: "node-gone-from-api(" + node + ")", Apply: func(hh *h.Hist) {
		hh.PostSync = append(hh.PostSync, func(hh *h.Hist) {
			for i, n := range hh.W.Nodes {
				if n.Name == node {
					hh.W.Nodes = append(hh.W.Nodes[:i:i], hh.W.Nodes[i+1:]...)
					return
				}
			}
		})
	}}
}

// evPodStartPending: a pod bound to the node whose containers have not started (phase Pending).
func evPodStartPending(g h.GroupSpec, node string, cpu int64) h.Event {
	return h.Event{Label: fmt.Sprintf("pod-bound-pending(%s,%dm)", node, cpu), Apply: func(hh *h.Hist) {
		o := podOn(g, node, cpu)
		o.Phase = v1.PodPending
		p := hh.W.AddPod(o)
		p.Status.Conditions = []v1.PodCondition{{Type: v1.PodScheduled, Status: v1.ConditionTrue}}
	}}
}

func evRestart() h.Event {
	return h.Event{Label: "restart", Apply: func(hh *h.Hist) { hh.Restart = true }}
}
func evStale() h.Event {
	return h.Event{Label: "stale-view", Apply: func(hh *h.Hist) { hh.Stale = true }}
}
func evSkipSettle() h.Event {
	return h.Event{Label: "skip-settle", Apply: func(hh *h.Hist) { hh.SkipSettle = true }}
}
func evExtraTick(k int) h.Event {
	return h.Event{Label: fmt.Sprintf("extra-tick(%dq)", k), Apply: func(hh *h.Hist) { hh.ExtraTicks = k }}
}
func evPerm(k int) h.Event {
	return h.Event{Label: fmt.Sprintf("rotate-node-list(%d)", k), Apply: func(hh *h.Hist) { hh.PermNodes = k }}
}
func evASGEdit(asg string, min, max int64) h.Event {
	return h.Event{Label: fmt.Sprintf("asg-edit(%s,min=%d,max=%d)", asg, min, max), Apply: func(hh *h.Hist) {
		if a := hh.W.FindASG(asg); a != nil {
			a.Min, a.Max = min, max
		}
	}}
}

// softOf / hardOf / coolOf parse the configured durations.
func softOf(g *h.GroupSpec) time.Duration {
	d, _ := time.ParseDuration(g.Opts.SoftDeleteGracePeriod)
	return d
}
func hardOf(g *h.GroupSpec) time.Duration {
	d, _ := time.ParseDuration(g.Opts.HardDeleteGracePeriod)
	return d
}
func coolOf(g *h.GroupSpec) time.Duration {
	d, _ := time.ParseDuration(g.Opts.ScaleUpCoolDownPeriod)
	return d
}
