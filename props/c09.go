package props

import (
	"strings"
	"time"

	"verif/h"
	"verif/sim"
)

// ---------------------------------------------------------------------------------------------
// C09 — cordoned nodes are never touched and never counted

// CordonCount re-labels, for scans whose view contains a cordoned node, every disagreement between
// the scan and the reference decision (which excludes cordoned capacity) as a C09 violation.
type CordonCount struct{ D *Decisions }

func (m CordonCount) Key() string { return m.D.Key() }
func (m CordonCount) AfterScan(ctx *h.ScanCtx) []h.Violation {
	var out []h.Violation
	for _, v := range m.D.AfterScan(ctx) {
		if strings.Contains(v.Sig, "float-equality") {
			continue
		}
		cordoned := false
		for _, g := range ctx.Groups {
			if len(g.C) > 0 {
				cordoned = true
			}
		}
		if !cordoned {
			continue
		}
		ctx.H.Cov["c09.disagreements-with-cordoned-present"]++
		out = append(out, h.Violation{Prop: "C09", Sig: "C09/decision-counts-cordoned/" + v.Sig, Msg: v.Msg + " (reference decision computed with cordoned capacity excluded)"})
	}
	for _, g := range ctx.Groups {
		if len(g.C) > 0 {
			ctx.H.Cov["c09.scans-with-cordoned"]++
		}
	}
	return out
}

func C09Scenarios(tier string) []*h.Scenario {
	g := StdGroup("g1")
	g.Opts.MaxNodes = 8
	s := &h.Scenario{
		Name:             "c09.lifecycles",
		Groups:           []h.GroupSpec{g},
		Slots:            9,
		Quantum:          Q,
		MaxEventsPerSlot: 2,
		Init: func(hh *h.Hist) {
			a := InitASGs(hh)[0]
			n1 := hh.W.AddNode(a, sim.NodeOpt{Age: 20 * Q})
			hh.W.AddPod(podOn(g, n1.Name, 300))
			hh.W.AddNode(a, sim.NodeOpt{Age: 21 * Q, CPUMilli: 4000, MemBytes: 16 << 30}) // odd-sized: counting it moves u across a band
			hh.W.AddNode(a, sim.NodeOpt{Age: 22 * Q, TaintAge: dp(0)})
			hh.W.AddNode(a, sim.NodeOpt{Age: 23 * Q, TaintAge: dp(3 * Q)})
			hh.W.AddNode(a, sim.NodeOpt{Age: 24 * Q, ForceTaint: true})
			hh.W.AddNode(a, sim.NodeOpt{Age: 25 * Q, TaintAge: dp(5 * Q), Annotation: "keep"})
		},
		Events: func(hh *h.Hist, slot int) []h.Event {
			var ev []h.Event
			for _, n := range groupNodes(hh, g, 6) {
				ev = append(ev, evCordon(n.Name, !n.Spec.Unschedulable), evPodStart(g, n.Name, 200), evPodFinish(g, n.Name))
			}
			ev = append(ev, evBurst(g, 2, 1000), evClearPending(g), evRestart(), evRefreshFails())
			return ev
		},
	}
	s2 := *s
	s2.Name = "c09.allcordoned"
	s2.Init = func(hh *h.Hist) {
		a := InitASGs(hh)[0]
		hh.W.AddNode(a, sim.NodeOpt{Age: 20 * Q, Cordoned: true, CPUMilli: 4000, MemBytes: 16 << 30})
		hh.W.AddNode(a, sim.NodeOpt{Age: 21 * Q, Cordoned: true, TaintAge: dp(6 * Q)})
		hh.W.AddNode(a, sim.NodeOpt{Age: 22 * Q, Cordoned: true, ForceTaint: true})
		n := hh.W.AddNode(a, sim.NodeOpt{Age: time.Duration(23) * Q})
		hh.W.AddPod(podOn(g, n.Name, 900))
	}
	// scale_on_starve: the free room of a cordoned node must not count as available capacity
	g3 := g
	g3.Opts.ScaleOnStarve = true
	s3 := *s
	s3.Name = "c09.starve"
	s3.Groups = []h.GroupSpec{g3}
	s3.Init = func(hh *h.Hist) {
		a := InitASGs(hh)[0]
		for i := 0; i < 2; i++ {
			n := hh.W.AddNode(a, sim.NodeOpt{Age: time.Duration(20+i) * Q})
			hh.W.AddPod(podOn(g3, n.Name, 300))
		}
		hh.W.AddNode(a, sim.NodeOpt{Age: 30 * Q, Cordoned: true})
		// 67.5 % utilisation (idle band); the pending pod (750m) fits on no schedulable node (700m free
		// each) but would fit on the cordoned, empty one: starvation is the only scale-up trigger
		hh.W.AddPod(podOn(g3, "", 750))
	}
	s3.Events = func(hh *h.Hist, slot int) []h.Event {
		var ev []h.Event
		for _, n := range groupNodes(hh, g3, 4) {
			ev = append(ev, evCordon(n.Name, !n.Spec.Unschedulable), evPodStart(g3, n.Name, 300), evPodFinish(g3, n.Name))
		}
		ev = append(ev, h.Event{Label: "pending-pod(700m)", Apply: func(hh *h.Hist) { hh.W.AddPod(podOn(g3, "", 700)) }}, evClearPending(g3), evRestart())
		return ev
	}
	// more nodes become removable in one scan than any removal rate: whatever is not removed at
	// once must still respect a cordon placed afterwards
	s4 := *s
	s4.Name = "c09.many-expired"
	s4.Init = func(hh *h.Hist) {
		a := InitASGs(hh)[0]
		n1 := hh.W.AddNode(a, sim.NodeOpt{Age: 20 * Q})
		hh.W.AddPod(podOn(g, n1.Name, 500))
		for i := 0; i < 5; i++ {
			hh.W.AddNode(a, sim.NodeOpt{Age: time.Duration(21+i) * Q, TaintAge: dp(time.Duration(3+i) * Q)})
		}
	}
	// the group's taint_effect was changed (NoExecute) while nodes still carry escalator taints written
	// with the old effect, one of them on a cordoned node: nothing may "repair" the cordoned one
	g5 := g
	g5.Opts.TaintEffect = "NoExecute"
	s5 := *s
	s5.Name = "c09.effect-changed"
	s5.Groups = []h.GroupSpec{g5}
	s5.Slots = 6
	s5.Init = func(hh *h.Hist) {
		a := InitASGs(hh)[0]
		n1 := hh.W.AddNode(a, sim.NodeOpt{Age: 20 * Q})
		hh.W.AddPod(podOn(g5, n1.Name, 300))
		hh.W.AddNode(a, sim.NodeOpt{Age: 21 * Q})
		hh.W.AddNode(a, sim.NodeOpt{Age: 22 * Q, TaintAge: dp(0)})                 // old effect (NoSchedule), schedulable
		hh.W.AddNode(a, sim.NodeOpt{Age: 23 * Q, TaintAge: dp(0), Cordoned: true}) // old effect, cordoned
		hh.W.AddNode(a, sim.NodeOpt{Age: 24 * Q, TaintAge: dp(3 * Q), Cordoned: true})
	}
	s5.Events = func(hh *h.Hist, slot int) []h.Event {
		var ev []h.Event
		for _, n := range groupNodes(hh, g5, 5) {
			ev = append(ev, evCordon(n.Name, !n.Spec.Unschedulable), evPodStart(g5, n.Name, 200), evPodFinish(g5, n.Name))
		}
		return append(ev, evBurst(g5, 2, 1000), evClearPending(g5), evRestart())
	}
	// the node lister fails in a scan after a node was cordoned: no remembered list may stand in
	s6 := *s
	s6.Name = "c09.lister-faults"
	s6.Slots = 5
	s6.FaultOps = map[string]bool{sim.OpListNodes: true, sim.OpListPods: true}
	// more nodes than max_nodes: every scan takes the over-maximum exit, whatever is cordoned
	g7 := g
	g7.Opts.MaxNodes = 4
	s7 := *s
	s7.Name = "c09.over-max"
	s7.Groups = []h.GroupSpec{g7}
	s7.Slots = 4
	// a group in dry mode by its own option: a cordoned node still carries a real, long-expired escalator
	// taint from before the switch to dry mode
	g8 := g
	g8.Opts.DryMode = true
	g8.Opts.MinNodes = 0
	s8 := *s
	s8.Name = "c09.dry-group"
	s8.Groups = []h.GroupSpec{g8}
	s8.Slots = 5
	s8.Init = func(hh *h.Hist) {
		a := InitASGs(hh)[0]
		n1 := hh.W.AddNode(a, sim.NodeOpt{Age: 20 * Q})
		hh.W.AddPod(podOn(g8, n1.Name, 50))
		hh.W.AddNode(a, sim.NodeOpt{Age: 21 * Q})
		hh.W.AddNode(a, sim.NodeOpt{Age: 30 * Q, Cordoned: true, TaintAge: dp(8 * Q)})
		hh.W.AddNode(a, sim.NodeOpt{Age: 31 * Q, Cordoned: true})
	}
	s8.Events = func(hh *h.Hist, slot int) []h.Event {
		var ev []h.Event
		for _, n := range groupNodes(hh, g8, 4) {
			ev = append(ev, evCordon(n.Name, !n.Spec.Unschedulable), evExtTaint(n.Name, "now-5q"))
		}
		return append(ev, evRestart())
	}
	return []*h.Scenario{s, &s2, &s3, &s4, &s5, &s6, &s7, &s8}
}

func init() {
	register(&Check{
		ID:    "C09",
		Level: "model_checking",
		Rule: "deviation-bounded DFS over 9-scan histories with cordon/uncordon of any node at any slot; initial worlds hold fresh, odd-sized, tainted-fresh, tainted-expired, force-tainted and annotated nodes; " +
			"non-trivial = scans whose view holds a cordoned node that is tainted, expired, force-tainted or odd-sized; distinct = (slot, class, node, pods, age) plus decision classes",
		Scenarios: C09Scenarios,
		Monitors: func() []h.Monitor {
			return []h.Monitor{CordonSafety{}, CordonCount{NewDecisions()}, &NearMiss{Seen: map[string]struct{}{}}}
		},
		Bound: func(tier string) int {
			if tier == "thorough" {
				return 3
			}
			return 2
		},
		Prune:       true,
		Nontrivial:  seenKeys,
		Assumptions: commonAssumptions,
		Alphabet:    []string{"cordon/uncordon(i)", "pod-start/finish(i)", "burst", "clear-pending", "restart"},
	})
}
