package props

import (
	"fmt"
	"testing"
	"time"

	v1 "k8s.io/api/core/v1"
	"k8s.io/apimachinery/pkg/api/resource"

	"verif/h"
	"verif/ref"
	"verif/sim"
)

// ---------------------------------------------------------------------------------------------
// C06 — direction and taint rate follow the utilisation bands

type c06Case struct {
	U, T, Min  int
	Lo, Up, Su int
	Slow, Fast int
	// Point places exact utilisation: numerator of u in units of 1/1000 of a percent relative to a
	// threshold: Ref is "lo" | "up" | "su", Num/Den scale it (e.g. 1/2 = half the threshold) and Eps
	// adds -1/0/+1 request units.
	Ref      string
	Num, Den int
	Eps      int
	Driver   string // cpu | mem
	Starve   string // "" | big | small
	MaxAge   string // "" | old | young
	AtMax    bool   // max_nodes equals the total node count (untainted + tainted)
	Annot    int    // this many of the oldest untainted nodes carry the no-delete annotation (they are tainted like any other)
	Shape    string // "" | init2: the load pod also carries two init containers, each one unit smaller than its container
}

const c06NodeMem = int64(4_000_000_000)

func c06Build(p c06Case) *h.Scenario {
	g := StdGroup("g1")
	g.Opts.MinNodes = p.Min
	g.Opts.MaxNodes = 16
	g.ASG.Max = 16
	g.ASG.MemBytes = c06NodeMem
	g.Opts.TaintLowerCapacityThresholdPercent, g.Opts.TaintUpperCapacityThresholdPercent, g.Opts.ScaleUpThresholdPercent = p.Lo, p.Up, p.Su
	g.Opts.SlowNodeRemovalRate, g.Opts.FastNodeRemovalRate = p.Slow, p.Fast
	g.Opts.ScaleOnStarve = p.Starve != ""
	if p.AtMax {
		g.Opts.MaxNodes = p.U + p.T
	}
	if p.MaxAge != "" {
		g.Opts.MaxNodeAge = "1h"
	}
	return &h.Scenario{
		Name:    "c06.grid",
		Groups:  []h.GroupSpec{g},
		Slots:   1,
		Quantum: Q,
		Init: func(hh *h.Hist) {
			a := InitASGs(hh)[0]
			first := ""
			for i := 0; i < p.U; i++ {
				age := time.Duration(10+i) * Q
				if p.MaxAge == "old" && i == 0 {
					age = 100 * Q
				}
				o := sim.NodeOpt{Age: age}
				if p.U-i <= p.Annot {
					o.Annotation = "keep" // the oldest nodes are the last ones added (largest age)
				}
				n := hh.W.AddNode(a, o)
				if first == "" {
					first = n.Name
				}
			}
			for i := 0; i < p.T; i++ {
				hh.W.AddNode(a, sim.NodeOpt{Age: time.Duration(30+i) * Q, TaintAge: dp(0)})
			}
			th := map[string]int{"lo": p.Lo, "up": p.Up, "su": p.Su}[p.Ref]
			// exact u = th * Num/Den percent of capacity, plus Eps request units
			capCPU, capMem := int64(p.U)*1000, int64(p.U)*c06NodeMem
			cpu := int64(1) // the non-driving resource stays negligible
			mem := int64(1)
			if p.Driver == "cpu" {
				cpu = capCPU*int64(th)*int64(p.Num)/(100*int64(p.Den)) + int64(p.Eps)
			} else {
				mem = capMem*int64(th)*int64(p.Num)/(100*int64(p.Den)) + int64(p.Eps)
			}
			if cpu < 0 {
				cpu = 0
			}
			if mem < 0 {
				mem = 0
			}
			pod := hh.W.AddPod(sim.PodOpt{Node: first, CPUMilli: cpu, MemBytes: mem, Selector: sel(g)})
			if p.Shape == "init2" {
				// request = max(sum of containers, largest init container): the two init containers change nothing
				ic := v1.Container{Name: "i", Resources: v1.ResourceRequirements{Requests: v1.ResourceList{
					v1.ResourceCPU:    *resource.NewMilliQuantity(max64(cpu-1, 0), resource.DecimalSI),
					v1.ResourceMemory: *resource.NewQuantity(max64(mem-1, 0), resource.BinarySI),
				}}}
				pod.Spec.InitContainers = []v1.Container{ic, ic}
			}
			switch p.Starve {
			case "big":
				hh.W.AddPod(sim.PodOpt{CPUMilli: 2000, MemBytes: 1, Selector: sel(g), Phase: v1.PodPending})
			case "just-too-big":
				// fits on no node (1100m > 1000m) but small enough to leave a large group in a taint band
				hh.W.AddPod(sim.PodOpt{CPUMilli: 1100, MemBytes: 1, Selector: sel(g), Phase: v1.PodPending})
			case "mem-only-partial":
				// every untainted node runs a pod using 40 % of its memory; the pending pod needs 70 % of a
				// node's memory and next to no CPU: it fits an empty node but none of these
				for _, n := range hh.W.Nodes {
					if _, t := h.HasTaint(n, h.TaintKey); !t {
						hh.W.AddPod(sim.PodOpt{Node: n.Name, CPUMilli: 100, MemBytes: c06NodeMem * 40 / 100, Selector: sel(g)})
					}
				}
				hh.W.AddPod(sim.PodOpt{CPUMilli: 100, MemBytes: c06NodeMem * 70 / 100, Selector: sel(g), Phase: v1.PodPending})
			case "small":
				hh.W.AddPod(sim.PodOpt{CPUMilli: 1, MemBytes: 1, Selector: sel(g), Phase: v1.PodPending})
			}
		},
	}
}

func max64(a, b int64) int64 {
	if a > b {
		return a
	}
	return b
}

// DryBands: the band rule for a dry-mode group, whose tainted nodes are the ones its tracker names.
// Scans of histories without scale-ups (no cool-down to track): the number of nodes newly named by
// the tracker must be the band's number computed on the untracked untainted nodes.
type DryBands struct{}

func (DryBands) Key() string { return "" }
func (DryBands) AfterScan(ctx *h.ScanCtx) []h.Violation {
	var out []h.Violation
	if ctx.Faulted || ctx.Res.Err != nil || ctx.Res.Panic != nil {
		return nil
	}
	for _, g := range ctx.Groups {
		if !g.Dry {
			continue
		}
		pre, post := map[string]bool{}, map[string]bool{}
		for _, st := range ctx.Pre {
			if st.Name == g.Name {
				for _, n := range st.TaintTracker {
					pre[n] = true
				}
			}
		}
		for _, st := range ctx.Post {
			if st.Name == g.Name {
				for _, n := range st.TaintTracker {
					post[n] = true
				}
			}
		}
		gv := *g
		gv.U, gv.T = nil, append([]*v1.Node(nil), g.T...)
		for _, n := range g.U {
			if pre[n.Name] {
				gv.T = append(gv.T, n)
			} else {
				gv.U = append(gv.U, n)
			}
		}
		d := ref.Decide(&gv, ctx.Start)
		if d.Edge != "" || d.Starve || d.MaxAge || len(gv.U) < gv.Min {
			continue
		}
		newly := 0
		for n := range post {
			if !pre[n] {
				newly++
			}
		}
		want := -1
		switch d.Class {
		case "fast", "slow":
			want = d.TaintWant
		case "idle":
			want = 0
		}
		if want < 0 {
			continue
		}
		ctx.H.Cov["c06.dry-band-scans"]++
		if newly != want {
			out = append(out, h.Violation{Prop: "C06", Sig: "C06/dry/band/" + d.Class,
				Msg: fmt.Sprintf("scan %d: dry-mode group %s: %d untracked untainted nodes, class %s: expected %d nodes newly tracked as tainted, saw %d", ctx.Scan, g.Name, len(gv.U), d.Class, want, newly)})
		}
	}
	return out
}

func c06Monitors() []h.Monitor { return []h.Monitor{NewDecisions(), DryBands{}} }

type c06Point struct {
	ref      string
	num, den int
	eps      int
}

var c06Points = []c06Point{
	{"lo", 1, 2, 0}, {"lo", 1, 1, -1}, {"lo", 1, 1, 0}, {"lo", 1, 1, 1},
	{"up", 1, 1, -1}, {"up", 1, 1, 0}, {"up", 1, 1, 1},
	{"su", 1, 1, -1}, {"su", 1, 1, 0}, {"su", 1, 1, 1}, {"su", 2, 1, 0},
}

func c06Grid(t *testing.T, tier string, shard, shards int, c *h.Collector) {
	thr := [][3]int{{10, 40, 70}, {1, 2, 3}, {7, 14, 28}, {30, 57, 58}, {50, 99, 100}, {50, 100, 150}}
	rates := [][2]int{{0, 0}, {0, 1}, {1, 1}, {1, 2}, {2, 5}}
	maxU := 4
	if tier == "thorough" {
		maxU = 5
	}
	idx := 0
	run := func(p c06Case) {
		idx++
		if idx%shards != shard {
			return
		}
		s := c06Build(p)
		s.Monitors = c06Monitors
		hh := gridCase(t, c, s, p)
		for _, k := range seenKeys(hh) {
			c.Nontrivial(fmt.Sprintf("grid/%d-%d-%d/%d-%d/%s%s/%s", p.Lo, p.Up, p.Su, p.Slow, p.Fast, p.Starve, p.MaxAge, k))
		}
	}
	for u := 1; u <= maxU; u++ {
		for tn := 0; tn <= 2; tn++ {
			for min := 0; min <= 2; min++ {
				for _, th := range thr {
					for _, r := range rates {
						for _, pt := range c06Points {
							for _, drv := range []string{"cpu", "mem"} {
								// interior points between thresholds are reached through the +/-1 neighbours and
								// the explicit half / double points; mid-band points are added via lo*Num/Den
								run(c06Case{U: u, T: tn, Min: min, Lo: th[0], Up: th[1], Su: th[2], Slow: r[0], Fast: r[1], Ref: pt.ref, Num: pt.num, Den: pt.den, Eps: pt.eps, Driver: drv})
							}
						}
					}
				}
			}
		}
	}
	// a starved pod while utilisation is in a taint band: 4 nodes (27.5 %, slow band) and 12 nodes
	// (9.2 %, fast band), with and without a tainted node, the group's total at max_nodes or not
	for _, u := range []int{4, 12} {
		for tn := 0; tn <= 1; tn++ {
			for _, min := range []int{0, 2} {
				for _, atMax := range []bool{false, true} {
					if atMax && tn == 0 {
						continue
					}
					p := c06Case{U: u, T: tn, Min: min, Lo: 10, Up: 40, Su: 70, Slow: 1, Fast: 2, Ref: "lo", Num: 0, Den: 1, Driver: "cpu", Starve: "just-too-big", AtMax: atMax}
					run(p)
				}
			}
		}
	}
	// a pod starved by memory only on partly filled nodes (54 % with five nodes: thresholds 40/60/70 put
	// it in the slow band, 50/65/70 below every band)
	for _, u := range []int{3, 5} {
		for _, th := range [][3]int{{40, 60, 70}, {10, 40, 70}, {55, 65, 70}} {
			for tn := 0; tn <= 1; tn++ {
				run(c06Case{U: u, T: tn, Min: 0, Lo: th[0], Up: th[1], Su: th[2], Slow: 1, Fast: 2, Ref: "lo", Num: 0, Den: 1, Driver: "cpu", Starve: "mem-only-partial"})
			}
		}
	}
	// untainted nodes carrying the no-delete annotation count and are tainted like any other node
	for annot := 1; annot <= 4; annot++ {
		for _, pt := range []c06Point{{"lo", 1, 2, 0}, {"up", 1, 1, -1}, {"up", 1, 1, 1}} {
			for _, min := range []int{0, 1} {
				run(c06Case{U: 4, T: 0, Min: min, Lo: 10, Up: 40, Su: 70, Slow: 1, Fast: 2, Ref: pt.ref, Num: pt.num, Den: pt.den, Eps: pt.eps, Driver: "cpu", Annot: annot})
			}
		}
	}
	// pods whose init containers must not add up
	for _, u := range []int{2, 4} {
		for _, drv := range []string{"cpu", "mem"} {
			for _, pt := range c06Points {
				run(c06Case{U: u, T: 0, Min: 0, Lo: 10, Up: 40, Su: 70, Slow: 1, Fast: 2, Ref: pt.ref, Num: pt.num, Den: pt.den, Eps: pt.eps, Driver: drv, Shape: "init2"})
			}
		}
	}
	// documented triggers
	for u := 1; u <= 3; u++ {
		for tn := 0; tn <= 1; tn++ {
			for min := 0; min <= 2; min++ {
				for _, pt := range []c06Point{{"lo", 1, 2, 0}, {"up", 1, 2, 0}, {"su", 9, 10, 0}, {"su", 2, 1, 0}} {
					for _, st := range []string{"big", "small"} {
						run(c06Case{U: u, T: tn, Min: min, Lo: 10, Up: 40, Su: 70, Slow: 1, Fast: 2, Ref: pt.ref, Num: pt.num, Den: pt.den, Driver: "cpu", Starve: st})
						if tn > 0 && min < u+tn {
							run(c06Case{U: u, T: tn, Min: min, Lo: 10, Up: 40, Su: 70, Slow: 1, Fast: 2, Ref: pt.ref, Num: pt.num, Den: pt.den, Driver: "cpu", Starve: st, AtMax: true})
						}
					}
					for _, ma := range []string{"old", "young"} {
						run(c06Case{U: u, T: tn, Min: min, Lo: 10, Up: 40, Su: 70, Slow: 1, Fast: 2, Ref: pt.ref, Num: pt.num, Den: pt.den, Driver: "cpu", MaxAge: ma})
					}
				}
			}
		}
	}
}

// c06HistScenarios: (a) an idle group holding expired tainted nodes, with every terminate / delete
// failing — reaping trouble must not change the taint count; (b) auto-discovered bounds with the
// cloud minimum edited while escalator runs.
func c06HistScenarios(tier string) []*h.Scenario {
	var out []*h.Scenario
	// a fixed-name pod is deleted and re-created with other requests between two scans: the band follows
	// the pod as listed now
	{
		g := StdGroup("g1")
		g.Opts.MinNodes = 1
		g.Opts.MaxNodes, g.ASG.Max = 10, 10
		resize := func(cpu int64) h.Event {
			return h.Event{Label: fmt.Sprintf("pod-recreated-same-name(%dm)", cpu), Apply: func(hh *h.Hist) {
				for _, p := range hh.W.Pods {
					if h.PodInGroup(p, &g) {
						p.Spec.Containers[0].Resources.Requests[v1.ResourceCPU] = *resource.NewMilliQuantity(cpu, resource.DecimalSI)
						p.UID = p.UID + "r"
						return
					}
				}
			}}
		}
		s := &h.Scenario{Name: "c06.pod-recreated", Groups: []h.GroupSpec{g}, Slots: 5, Quantum: Q, MaxEventsPerSlot: 1,
			Init: func(hh *h.Hist) {
				a := InitASGs(hh)[0]
				for i := 0; i < 4; i++ {
					hh.W.AddNode(a, sim.NodeOpt{Age: time.Duration(20+i) * Q})
				}
				hh.W.AddPod(podOn(g, hh.W.Nodes[0].Name, 2200)) // 55 %: no action
			},
			Events: func(hh *h.Hist, slot int) []h.Event {
				return []h.Event{resize(1000), resize(3500), resize(100), resize(2200), evRestart()}
			},
		}
		out = append(out, s)
	}
	// a group in dry mode by its own option (the controller flag is off) and by the global flag: a node
	// it dry-tainted no longer counts, so the next scans sit in other bands (35 % -> 43.75 % -> ...)
	for _, global := range []bool{false, true} {
		g := StdGroup("g1")
		g.Opts.MinNodes = 1
		g.Opts.DryMode = !global
		s := &h.Scenario{Name: fmt.Sprintf("c06.dry-group.global-%v", global), Groups: []h.GroupSpec{g}, DryGlobal: global, Slots: 5, Quantum: Q, MaxEventsPerSlot: 1,
			Init: func(hh *h.Hist) {
				a := InitASGs(hh)[0]
				for i := 0; i < 5; i++ {
					hh.W.AddNode(a, sim.NodeOpt{Age: time.Duration(20+i) * Q})
				}
				hh.W.AddPod(podOn(g, hh.W.Nodes[0].Name, 1750))
			},
			Events: func(hh *h.Hist, slot int) []h.Event {
				return []h.Event{evPodFinish(g, hh.W.Nodes[0].Name), evPodStart(g, hh.W.Nodes[0].Name, 200), evRestart()}
			},
		}
		out = append(out, s)
	}
	{
		g := StdGroup("g1")
		g.Opts.FastNodeRemovalRate, g.Opts.SlowNodeRemovalRate = 2, 1
		s := &h.Scenario{Name: "c06.reap-faults", Groups: []h.GroupSpec{g}, Slots: 4, Quantum: Q, MaxEventsPerSlot: 1,
			FaultOps: map[string]bool{sim.OpTerminate: true, sim.OpK8sDelete: true},
			Init: func(hh *h.Hist) {
				a := InitASGs(hh)[0]
				n := hh.W.AddNode(a, sim.NodeOpt{Age: 20 * Q})
				hh.W.AddPod(podOn(g, n.Name, 100))
				for i := 0; i < 4; i++ {
					hh.W.AddNode(a, sim.NodeOpt{Age: time.Duration(21+i) * Q})
				}
				hh.W.AddNode(a, sim.NodeOpt{Age: 30 * Q, TaintAge: dp(5 * Q)})
			},
			Events: func(hh *h.Hist, slot int) []h.Event {
				return []h.Event{evBurst(g, 1, 1200), evClearPending(g), evRestart()}
			},
		}
		out = append(out, s)
	}
	{
		// an idle group whose taint writes fail at every position
		g := StdGroup("g1")
		g.Opts.MinNodes = 2
		g.Opts.MaxNodes = 8
		g.Opts.FastNodeRemovalRate, g.Opts.SlowNodeRemovalRate = 3, 1
		s := &h.Scenario{Name: "c06.taint-faults", Groups: []h.GroupSpec{g}, Slots: 2, Quantum: Q, MaxEventsPerSlot: 1,
			FaultOps: map[string]bool{sim.OpK8sGet: true, sim.OpK8sUpdate: true},
			Init: func(hh *h.Hist) {
				a := InitASGs(hh)[0]
				for i := 0; i < 6; i++ {
					hh.W.AddNode(a, sim.NodeOpt{Age: time.Duration(20+i) * Q})
				}
			},
			Events: func(hh *h.Hist, slot int) []h.Event {
				var ev []h.Event
				for _, n := range groupNodes(hh, g, 6) {
					ev = append(ev, evRejectNode(n.Name))
				}
				return ev
			},
		}
		out = append(out, s)
	}
	{
		g := StdGroup("g1")
		g.Opts.MinNodes, g.Opts.MaxNodes = 0, 0
		g.ASG.Min, g.ASG.Max = 1, 8
		g.Opts.FastNodeRemovalRate, g.Opts.SlowNodeRemovalRate = 4, 2
		s := &h.Scenario{Name: "c06.auto-bounds", Groups: []h.GroupSpec{g}, Slots: 4, Quantum: Q, MaxEventsPerSlot: 2,
			Init: func(hh *h.Hist) {
				a := InitASGs(hh)[0]
				n := hh.W.AddNode(a, sim.NodeOpt{Age: 20 * Q})
				hh.W.AddPod(podOn(g, n.Name, 100))
				for i := 0; i < 5; i++ {
					hh.W.AddNode(a, sim.NodeOpt{Age: time.Duration(21+i) * Q})
				}
			},
			Events: func(hh *h.Hist, slot int) []h.Event {
				return []h.Event{evASGEdit(g.ASG.Name, 3, 8), evASGEdit(g.ASG.Name, 5, 8), evASGEdit(g.ASG.Name, 0, 8), evASGEdit(g.ASG.Name, 1, 6), evBurst(g, 1, 2500), evClearPending(g), evRestart()}
			},
		}
		out = append(out, s)
	}
	return out
}

func init() {
	register(&Check{
		ID:    "C06",
		Level: "model_checking",
		Rule: "grid: single real scans at |U| 1..4/5, |T| 0..2, min 0..2, six threshold triples, five rate pairs, exact utilisation at band interiors and at each threshold exactly and +/-1 request unit (CPU- and memory-driven), " +
			"scale_on_starve with a pending pod larger/smaller than any node, max_node_age with/without an over-age node; histories: an idle group holding expired tainted nodes with every terminate / delete failing, auto-discovered bounds with the cloud minimum edited at run time, and the band monitor on the C01 and C02 scenarios; " +
			"non-trivial = unlocked in-bounds scans; distinct = (thresholds, rates, class, edge, |U|,|T|, min, observed taints/untaints/requests)",
		Grid:       c06Grid,
		ReplayCase: replayGrid(c06Build, c06Monitors),
		Scenarios: func(tier string) []*h.Scenario {
			out := c06HistScenarios(tier)
			// the borrowed C01 / C02 worlds run one deviation shallower than C06's own worlds
			for _, s := range histScenarios(tier, C01Scenarios, C02Scenarios) {
				s.BoundCap = 1
				if tier == "thorough" {
					s.BoundCap = 2
				}
				out = append(out, s)
			}
			return out
		},
		Monitors: c06Monitors,
		Bound: func(tier string) int {
			if tier == "thorough" {
				return 3
			}
			return 2
		},
		Prune:       true,
		Nontrivial:  seenKeys,
		Assumptions: append([]string{"u = scale-up threshold exactly is accepted as either idle or scale-up (statement says 'above', documentation table says '70 % = scale up')"}, commonAssumptions...),
		Alphabet:    []string{"grid over (|U|,|T|,min, thresholds, rates, exact utilisation point, driver, triggers)", "C01 and C02 history alphabets"},
	})
}
