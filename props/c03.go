package props

import (
	"fmt"
	"testing"
	"time"

	"verif/h"
	"verif/sim"
)

// ---------------------------------------------------------------------------------------------
// C03 — tainting never leaves fewer than min_nodes schedulable nodes

type c03Case struct {
	U, TFresh, TExpired, F, C int
	Min                       int
	Slow, Fast                int
	Band                      string // fast | slow | none | up
	Auto                      bool   // min/max auto-discovered from the cloud group
}

func c03Build(p c03Case) *h.Scenario {
	g := StdGroup("g1")
	g.Opts.MinNodes, g.Opts.MaxNodes = p.Min, 14
	g.ASG.Min, g.ASG.Max = 0, 14
	if p.Auto {
		g.Opts.MinNodes, g.Opts.MaxNodes = 0, 0
		g.ASG.Min = int64(p.Min)
	}
	g.Opts.SlowNodeRemovalRate, g.Opts.FastNodeRemovalRate = p.Slow, p.Fast
	pct := map[string]int64{"fast": 5, "slow": 25, "none": 55, "up": 150}[p.Band]
	return &h.Scenario{
		Name:    "c03.grid",
		Groups:  []h.GroupSpec{g},
		Slots:   3,
		Quantum: Q,
		Init: func(hh *h.Hist) {
			a := InitASGs(hh)[0]
			first := ""
			k := 0
			addN := func(n int, o sim.NodeOpt) {
				for i := 0; i < n; i++ {
					k++
					o.Age = time.Duration(10+k) * Q
					nd := hh.W.AddNode(a, o)
					if first == "" && o.TaintAge == nil && !o.ForceTaint && !o.Cordoned {
						first = nd.Name
					}
				}
			}
			addN(p.U, sim.NodeOpt{})
			addN(p.TFresh, sim.NodeOpt{TaintAge: dp(0)})
			addN(p.TExpired, sim.NodeOpt{TaintAge: dp(3 * Q)})
			addN(p.F, sim.NodeOpt{ForceTaint: true})
			addN(p.C, sim.NodeOpt{Cordoned: true})
			cap := int64(p.U) * 1000
			if p.U == 0 {
				cap = 1000
			}
			if cpu := cap * pct / 100; cpu > 0 {
				hh.W.AddPod(sim.PodOpt{Node: first, CPUMilli: cpu, MemBytes: 1 << 20, Selector: sel(g)})
			}
		},
		Script: func(hh *h.Hist, slot int) {
			// with auto-discovery the operator raises the cloud group's minimum between scans
			if p.Auto && slot == 1 {
				if a := hh.W.FindASG(g.ASG.Name); a != nil && a.Min+1 < a.Max {
					a.Min++
				}
			}
		},
	}
}

func c03Monitors() []h.Monitor { return []h.Monitor{TaintBound{}, NewDecisions()} }

func c03Grid(t *testing.T, tier string, shard, shards int, c *h.Collector) {
	rates := [][2]int{{0, 0}, {1, 1}, {1, 2}, {2, 5}, {5, 9}}
	maxFC := 1
	if tier == "thorough" {
		maxFC = 3
	}
	idx := 0
	for u := 0; u <= 3; u++ {
		for tf := 0; tf <= 2; tf++ {
			for te := 0; te <= 2; te++ {
				if tf+te > 3 {
					continue
				}
				for f := 0; f <= maxFC; f++ {
					for cn := 0; cn <= maxFC; cn++ {
						for min := 0; min <= 3; min++ {
							for _, r := range rates {
								for _, band := range []string{"fast", "slow", "none", "up"} {
									for _, auto := range []bool{false, true} {
										if auto && min == 0 {
											continue // min 0 / max 0 in the cloud group is not a usable group
										}
										idx++
										if idx%shards != shard {
											continue
										}
										p := c03Case{u, tf, te, f, cn, min, r[0], r[1], band, auto}
										s := c03Build(p)
										s.Monitors = c03Monitors
										hh := gridCase(t, c, s, p)
										for _, k := range seenKeys(hh) {
											c.Nontrivial(fmt.Sprintf("grid/r%d-%d/auto%v/%s", r[0], r[1], auto, k))
										}
									}
								}
							}
						}
					}
				}
			}
		}
	}
}

// c03FaultScenarios: idle groups in which the min_nodes clamp is binding, explored with every get /
// update of the taint loop failing.
func c03FaultScenarios(tier string) []*h.Scenario {
	var out []*h.Scenario
	for u := 2; u <= 5; u++ {
		for _, room := range []int{0, 1, 2} {
			if u-room < 0 {
				continue
			}
			p := c03Case{U: u, TExpired: 1, Min: u - room, Slow: 5, Fast: 9, Band: "fast"}
			s := c03Build(p)
			s.Name = fmt.Sprintf("c03.faults.U%d.room%d", u, room)
			s.Slots = 2
			s.FaultOps = map[string]bool{sim.OpK8sGet: true, sim.OpK8sUpdate: true}
			g0 := s.Groups[0]
			s.MaxEventsPerSlot = 1
			s.Events = func(hh *h.Hist, slot int) []h.Event {
				var ev []h.Event
				for _, n := range groupNodes(hh, g0, 6) {
					ev = append(ev, evExtTaint(n.Name, "abc"), evExtTaint(n.Name, ""), evCordon(n.Name, !n.Spec.Unschedulable), evRejectNode(n.Name), evAnnotate(n.Name, "keep"))
				}
				return ev
			}
			out = append(out, s)
		}
	}
	// auto-discovered bounds: the cloud minimum is raised between the scans and the second scan's
	// refresh may fail once (the provider is rebuilt)
	{
		p := c03Case{U: 5, Min: 1, Slow: 5, Fast: 9, Band: "fast", Auto: true}
		s := c03Build(p)
		s.Name = "c03.auto-refresh"
		s.Slots = 3
		g0 := s.Groups[0]
		s.Script = func(hh *h.Hist, slot int) {
			if slot == 1 {
				if a := hh.W.FindASG(g0.ASG.Name); a != nil {
					a.Min = 4
				}
			}
		}
		s.Groups[0].Opts.SlowNodeRemovalRate, s.Groups[0].Opts.FastNodeRemovalRate = 1, 1
		s.MaxEventsPerSlot = 1
		s.Events = func(hh *h.Hist, slot int) []h.Event {
			// the operator may also pin the cloud group to exactly its current size (minimum = maximum = 5)
			return []h.Event{evRefreshFails(), evRestart(), evASGEdit(g0.ASG.Name, 5, 5)}
		}
		out = append(out, s)
	}
	// below min_nodes while the only untainted node has just registered and reports no allocatable yet:
	// the restore does not wait for a utilisation figure
	{
		p := c03Case{U: 0, TFresh: 3, Min: 3, Slow: 5, Fast: 9, Band: "fast"}
		s := c03Build(p)
		s.Name = "c03.restore-with-unsized-node"
		s.Slots = 3
		g0 := s.Groups[0]
		inner := s.Init
		s.Init = func(hh *h.Hist) {
			inner(hh)
			hh.W.AddNode(hh.W.FindASG(g0.ASG.Name), sim.NodeOpt{Age: 1 * Q, NoAlloc: true})
		}
		s.MaxEventsPerSlot = 1
		s.Events = func(hh *h.Hist, slot int) []h.Event { return []h.Event{evRestart()} }
		out = append(out, s)
	}
	// below min_nodes with tainted nodes to restore: the API rejects every call on one tainted node
	// (the restore must not be lost from then on), and the cloud group holds an instance that never
	// joins (the restore works on untainted nodes, not on the cloud target)
	for _, ghost := range []bool{false, true} {
		p := c03Case{U: 2, TFresh: 2, Min: 3, Slow: 5, Fast: 9, Band: "fast"}
		s := c03Build(p)
		s.Name = fmt.Sprintf("c03.restore-rejected.ghost-%v", ghost)
		s.Slots = 4
		g0 := s.Groups[0]
		if ghost {
			inner := s.Init
			s.Init = func(hh *h.Hist) {
				inner(hh)
				hh.W.AddPendingInstance(hh.W.FindASG(g0.ASG.Name))
			}
		}
		s.MaxEventsPerSlot = 1
		s.Events = func(hh *h.Hist, slot int) []h.Event {
			var ev []h.Event
			for _, n := range groupNodes(hh, g0, 6) {
				if _, t := h.HasTaint(n, h.TaintKey); t {
					ev = append(ev, evRejectNode(n.Name))
				}
			}
			return append(ev, evRestart())
		}
		out = append(out, s)
	}
	// the node / pod listers fail in a scan after nodes have vanished
	{
		p := c03Case{U: 5, Min: 3, Slow: 5, Fast: 9, Band: "none"}
		s := c03Build(p)
		s.Name = "c03.lister-faults"
		s.Slots = 3
		g0 := s.Groups[0]
		s.Script = func(hh *h.Hist, slot int) {
			if slot == 1 {
				// the two newest nodes are gone (terminated outside escalator) and the load has finished:
				// from now on the group is idle with exactly min_nodes untainted nodes
				hh.W.Pods = nil
				a := hh.W.FindASG(g0.ASG.Name)
				for k := 0; k < 2 && len(a.Instances) > 0; k++ {
					last := a.Instances[len(a.Instances)-1]
					a.Instances = a.Instances[:len(a.Instances)-1]
					a.Desired--
					hh.W.EC2[last.ID].State = "terminated"
				}
				hh.W.Settle()
			}
		}
		s.FaultOps = map[string]bool{sim.OpListNodes: true, sim.OpListPods: true}
		out = append(out, s)
	}
	return out
}

func init() {
	register(&Check{
		ID:    "C03",
		Level: "model_checking",
		Rule: "grid: every state with |U| 0..3, tainted fresh/expired 0..2 each, force-tainted and cordoned 0..1 (0..3 thorough), min 0..3, five rate pairs (including rates larger than the group), four load bands, min/max configured or auto-discovered (cloud minimum raised between scans), three consecutive scans on the real controller; " +
			"idle groups with a binding clamp explored with every get / update of the taint loop failing; plus the taint-bound and restore monitors on the C01/C02 history scenarios; non-trivial = scans that tainted or that saw fewer untainted nodes than min; distinct = (rates, auto, class, |U|,|T|,|F|,|C|, min, observed actions)",
		Grid:       c03Grid,
		ReplayCase: replayGrid(c03Build, c03Monitors),
		Scenarios:  func(tier string) []*h.Scenario { return histScenarios(tier, c03FaultScenarios, C01Scenarios, C02Scenarios) },
		Monitors:   c03Monitors,
		Bound: func(tier string) int {
			if tier == "thorough" {
				return 2
			}
			return 1
		},
		Prune:       true,
		Nontrivial:  seenKeys,
		Assumptions: commonAssumptions,
		Alphabet:    []string{"grid over (|U|,|T fresh|,|T expired|,|F|,|C|, min, rates, band, auto-discovery)", "C01 and C02 history alphabets"},
	})
}
