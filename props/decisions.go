package props

import (
	"fmt"
	"time"

	v1 "k8s.io/api/core/v1"

	"verif/h"
	"verif/ref"
	"verif/sim"
)

// lockTracker reconstructs, from the journal alone, whether a group is inside a cool-down window
// (same definition as the C02 monitor).
type lockTracker struct {
	a   map[string]time.Time
	now time.Time
}

func (l *lockTracker) reset() { l.a = map[string]time.Time{} }

func (l *lockTracker) inWindow(g *h.GroupView, t time.Time) bool {
	a, ok := l.a[g.Name]
	return ok && t.Sub(a) < coolOf(g.Spec)
}

func (l *lockTracker) observe(ctx *h.ScanCtx) {
	for _, g := range ctx.Groups {
		writes := ctx.WritesFor(g)
		for i, e := range writes {
			acc := false
			switch {
			case e.Op == sim.OpSetDesired && e.Err == "":
				// escalator takes its cool-down lock after every successful scale-up call, also when (working
				// on a stale description of the cloud group) the call did not actually raise the capacity
				acc = true
			case e.Op == sim.OpAttach && e.Err == "":
				acc = true
				for _, f := range writes[i+1:] {
					if f.Op == sim.OpAttach || f.Op == sim.OpTermIns {
						acc = false
					}
				}
			}
			if acc {
				l.a[g.Name] = e.T
			}
		}
	}
	if ctx.Res.Err != nil || ctx.Res.Panic != nil || ctx.Res.Killed || ctx.Res.Exit {
		l.reset()
	}
}

func (l *lockTracker) key() string {
	s := ""
	for _, g := range sortedKeys(l.a) {
		s += fmt.Sprintf("%s:%d,", g, int64(l.now.Sub(l.a[g])/time.Second))
	}
	return s
}

// Decisions compares what each scan did with the reference decision, projecting per property:
// C03 (restore clause), C05 (amount), C06 (bands), C07 (reuse before buying).
type Decisions struct {
	lock lockTracker
	Seen map[string]struct{}
}

func NewDecisions() *Decisions {
	d := &Decisions{Seen: map[string]struct{}{}}
	d.lock.reset()
	return d
}

func (m *Decisions) Key() string { return m.lock.key() }

type scanObs struct {
	// adds / removes: successful taint-adding / taint-removing writes. noopAdds / noopRemoves:
	// nodes the scan fetched in order to taint / untaint and found already in the wanted state in
	// the API store (possible only with a stale view); the controller counts them as done.
	adds, removes         []string
	noopAdds, noopRemoves int
	failedNodes           map[string]bool
	incr                  []sim.Entry // cloud increase attempts (SetDesiredCapacity / CreateFleet)
	terminatedBeforeIncr  int
	writes                []sim.Entry
}

func observe(ctx *h.ScanCtx, g *h.GroupView) scanObs {
	o := scanObs{failedNodes: map[string]bool{}}
	o.writes = ctx.WritesFor(g)
	// a node that escalator itself removed earlier in this scan is not "failed": the NotFound that
	// follows is the consequence of its own choice to remove the node instead of reusing it
	removedHere := map[string]bool{}
	byInstance := map[string]string{}
	for _, n := range g.Nodes {
		byInstance[sim.InstanceIDOf(n.Spec.ProviderID)] = n.Name
	}
	for _, e := range ctx.Entries {
		if e.Err == "" && e.Op == sim.OpK8sDelete {
			removedHere[e.Target] = true
		}
		if e.Err == "" && e.Op == sim.OpTerminate {
			if n, ok := byInstance[e.Target]; ok {
				removedHere[n] = true
			}
		}
		if (e.Op == sim.OpK8sGet || e.Op == sim.OpK8sUpdate) && e.Err != "" && !removedHere[e.Target] {
			if gg, _ := ctx.GroupOfNode(e.Target); gg == g {
				o.failedNodes[e.Target] = true
			}
		}
	}
	inU, inT := map[string]bool{}, map[string]bool{}
	for _, n := range g.U {
		inU[n.Name] = true
	}
	for _, n := range g.T {
		inT[n.Name] = true
	}
	for i, e := range ctx.Entries {
		if e.Op != sim.OpK8sGet || e.Err != "" || e.Before == nil {
			continue
		}
		followed := false
		for _, f := range ctx.Entries[i+1:] {
			if f.Op == sim.OpK8sUpdate && f.Target == e.Target {
				followed = true
			}
			if f.Op == sim.OpK8sGet {
				break
			}
		}
		_, has := h.HasTaint(e.Before, h.TaintKey)
		if !followed && inU[e.Target] && has {
			o.noopAdds++
		}
		if !followed && inT[e.Target] && !has {
			o.noopRemoves++
		}
	}
	for _, e := range o.writes {
		switch {
		case e.Err == "" && h.TaintAdded(e):
			o.adds = append(o.adds, e.Target)
		case e.Err == "" && h.TaintRemoved(e):
			o.removes = append(o.removes, e.Target)
		case e.Op == sim.OpSetDesired || e.Op == sim.OpCreateFleet:
			o.incr = append(o.incr, e)
		case e.Op == sim.OpTerminate && e.Err == "" && len(o.incr) == 0:
			o.terminatedBeforeIncr++
		}
	}
	return o
}

func bound(g *h.GroupView) int64 {
	b := int64(g.Max)
	if g.CloudMax < b {
		b = g.CloudMax
	}
	return b
}

func nodeByName(ns []*v1.Node, name string) *v1.Node {
	for _, n := range ns {
		if n.Name == name {
			return n
		}
	}
	return nil
}

func (m *Decisions) AfterScan(ctx *h.ScanCtx) []h.Violation {
	var out []h.Violation
	m.lock.now = ctx.Start
	if ctx.Fresh {
		m.lock.reset()
	}
	add := func(prop, sig, msg string) {
		out = append(out, h.Violation{Prop: prop, Sig: sig, Msg: fmt.Sprintf("scan %d: %s", ctx.Scan, msg)})
	}
	clean := ctx.Res.Err == nil && ctx.Res.Panic == nil && !ctx.Res.Killed && !ctx.Res.Exit && !ctx.Res.Hang
	for _, g := range ctx.Groups {
		if g.Dry || !clean || m.lock.inWindow(g, ctx.Start) {
			continue
		}
		d := ref.Decide(g, ctx.Start)
		o := observe(ctx, g)
		B := bound(g)
		m.Seen[fmt.Sprintf("%s:%s:%s:U%dT%dF%dC%d:min%d:a%d,r%d,i%d", g.Name, d.Class, d.Edge, len(g.U), len(g.T), len(g.F), len(g.C), g.Min, len(o.adds), len(o.removes), len(o.incr))] = struct{}{}
		ctx.H.Cov["class."+d.Class]++

		// ---- C07: which nodes are untainted, and reuse before buying (holds under failed writes too)
		if len(o.removes) > 0 || len(o.incr) > 0 {
			untainted := map[string]bool{}
			for _, n := range o.removes {
				untainted[n] = true
			}
			for _, a := range o.removes {
				na := nodeByName(g.T, a)
				if na == nil {
					add("C07", "C07/untainted-node-not-tainted-in-view", fmt.Sprintf("group %s: %s was untainted but is not a tainted node of the view", g.Name, a))
					continue
				}
				for _, nb := range g.T {
					if untainted[nb.Name] || o.failedNodes[nb.Name] {
						continue
					}
					if na.CreationTimestamp.Time.Before(nb.CreationTimestamp.Time) {
						add("C07", "C07/untaint-not-newest-first", fmt.Sprintf("group %s: untainted %s (created %s) while newer tainted node %s (created %s) stays tainted", g.Name,
							a, na.CreationTimestamp.UTC().Format("15:04:05"), nb.Name, nb.CreationTimestamp.UTC().Format("15:04:05")))
					}
				}
			}
			if len(o.incr) > 0 {
				for _, nb := range g.T {
					if !untainted[nb.Name] && !o.failedNodes[nb.Name] {
						add("C07", "C07/bought-capacity-while-tainted-node-available", fmt.Sprintf("group %s: cloud increase requested although tainted node %s was neither untainted nor failed to untaint", g.Name, nb.Name))
						break
					}
				}
			}
		}

		// expected need interval [needLo, needHi] (number of nodes to bring into service)
		needLo, needHi := -1, -1
		switch d.Class {
		case "restore":
			needLo, needHi = d.Need, d.Need
		case "up":
			if d.NMin > 0 && !d.FromZero {
				needLo, needHi = d.NMin-len(g.U), d.NMin+1-len(g.U)
			}
		}
		if needLo >= 0 && !ctx.Faulted {
			k := len(o.removes) + o.noopRemoves
			// tainted nodes whose read / write failed (including a node that has vanished from the API
			// server behind a still-listing cache) cannot be untainted
			usable := 0
			for _, n := range g.T {
				if !o.failedNodes[n.Name] {
					usable++
				}
			}
			wantUntaint := needLo
			if wantUntaint > usable {
				wantUntaint = usable
			}
			if k < wantUntaint || k > needHi {
				add("C07", "C07/untaint-count", fmt.Sprintf("group %s (%s): %d nodes untainted, need is %d..%d and %d tainted nodes are available", g.Name, d.Class, k, needLo, needHi, len(g.T)))
			}
			// the cloud request: on top of the real desired size, the remainder, clamped to B
			for _, e := range o.incr {
				got := e.Val
				if e.Op == sim.OpSetDesired {
					got = e.Val - e.RealDesired
				}
				headroom := B - e.RealDesired
				lo, hi := int64(needLo-k), int64(needHi-k)
				clamped := false
				if lo > headroom {
					lo, clamped = headroom, true
				}
				if hi > headroom {
					hi = headroom
				}
				if got < lo || got > hi {
					sig := "C07/cloud-request-not-remainder"
					if o.terminatedBeforeIncr > 0 && got-int64(o.terminatedBeforeIncr) >= lo && got-int64(o.terminatedBeforeIncr) <= hi {
						sig = "C07/stale-desired-after-same-scan-termination"
					}
					if e.RealDesired+got > B {
						sig = "" // a C04 matter, reported there
					}
					if sig != "" {
						add("C07", sig, fmt.Sprintf("group %s (%s): %s asks for +%d on a real desired size of %d; remainder after untainting %d is %d..%d (bound %d, clamped=%v, %d instances terminated earlier in this scan)",
							g.Name, d.Class, e.Op, got, e.RealDesired, k, lo, hi, B, clamped, o.terminatedBeforeIncr))
					}
				}
			}
			// ---- C04: the clamp lands exactly on the bound; no request without headroom
			{
				real := g.CloudDesired - int64(o.terminatedBeforeIncr)
				head := B - real
				if head <= 0 && len(o.incr) > 0 {
					add("C04", "C04/request-without-headroom", fmt.Sprintf("group %s: desired %d already at/above min(max_nodes %d, cloud max %d) but %s was issued", g.Name, real, g.Max, g.CloudMax, o.incr[0].Op))
				}
				if head > 0 && int64(needLo-k) > head {
					ctx.H.Cov["c04.clamp-cases"]++
					if len(o.incr) != 1 {
						add("C04", "C04/clamp-no-single-request", fmt.Sprintf("group %s: need %d after untainting %d exceeds headroom %d: expected one request landing on %d, saw %d requests", g.Name, needLo, k, head, B, len(o.incr)))
					} else {
						e := o.incr[0]
						tgt := e.Val
						if e.Op == sim.OpCreateFleet {
							tgt = e.RealDesired + e.Val
						}
						if tgt < B {
							add("C04", "C04/clamp-below-bound", fmt.Sprintf("group %s: need %d after untainting %d exceeds headroom %d: request lands on %d, bound is %d", g.Name, needLo, k, head, tgt, B))
						}
					}
				}
			}
			if len(o.incr) == 0 && int64(needLo-k) > 0 && B-(g.CloudDesired-int64(o.terminatedBeforeIncr)) > 0 && k >= len(g.T) {
				add("C07", "C07/remainder-not-requested", fmt.Sprintf("group %s (%s): need %d..%d, untainted %d, headroom exists, but no cloud request was made", g.Name, d.Class, needLo, needHi, k))
			}
		}

		// ---- C05: amount (equal node sizes, from the view). Holds under failing untaint writes as well
		// (a node whose untaint failed is not in service), and when a trigger coincides with high
		// utilisation (the trigger only raises the amount to at least one).
		faultsOnlyNodeWrites := true
		// failing removal calls (terminate / Node delete of force-tainted or expired nodes) do not change
		// what has to be brought into service either
		faultsOnlyNodeWritesOrRemovals := true
		for _, e := range ctx.Entries {
			if e.Err == "injected" && e.Op != sim.OpK8sGet && e.Op != sim.OpK8sUpdate {
				faultsOnlyNodeWrites = false
				if e.Op != sim.OpTerminate && e.Op != sim.OpK8sDelete {
					faultsOnlyNodeWritesOrRemovals = false
				}
			}
		}
		// a fault-free fleet scale-up delivers what it asked for: every acquired instance is attached
		if !ctx.Faulted && clean {
			for _, e := range o.incr {
				if e.Op != sim.OpCreateFleet || e.Err != "" {
					continue
				}
				attached, cleanedUp := 0, false
				for _, w := range o.writes {
					if w.Op == sim.OpAttach && w.Err == "" {
						attached += len(w.IDs)
					}
					if w.Op == sim.OpTermIns {
						cleanedUp = true
					}
				}
				if cleanedUp {
					continue // the provisioning failed (instances never became ready) and was cleaned up: C18's subject
				}
				ctx.H.Cov["c05.fleet-scale-ups"]++
				if int64(attached) != e.Val {
					add("C05", "C05/fleet-amount-not-attached", fmt.Sprintf("group %s: CreateFleet asked for %d instances and succeeded, %d were attached to the cloud group", g.Name, e.Val, attached))
				}
			}
		}
		if d.Class == "up" && d.NMin > 0 && !d.FromZero && (!ctx.Faulted || faultsOnlyNodeWritesOrRemovals) {
			ctx.H.Cov["c05.up-scans"]++
			// only the untaint of a node from the tainted bucket brings a node into service (a node that also
			// carries the force-removal taint, or is cordoned, stays out whatever is written to it)
			inService := 0
			for _, r := range o.removes {
				if nodeByName(g.T, r) != nil {
					inService++
				}
			}
			got := int64(len(g.U) + inService + o.noopRemoves)
			clamped := false
			for _, e := range o.incr {
				if e.Op == sim.OpSetDesired {
					got += e.Val - e.RealDesired
					clamped = clamped || e.Val >= B
				} else {
					got += e.Val
					clamped = clamped || e.RealDesired+e.Val >= B
				}
			}
			if len(o.incr) == 0 && B-g.CloudDesired <= 0 {
				clamped = true
			}
			if !clamped && (got < int64(d.NMin) || got > int64(d.NMin+1)) {
				sig := "C05/amount"
				if ctx.Faulted {
					sig = "C05/amount/under-untaint-failure"
				} else if d.MaxAge || d.Starve {
					sig = "C05/amount/with-trigger"
				}
				add("C05", sig, fmt.Sprintf("group %s: requests %dm/%dB on %d untainted equal nodes, threshold %d: minimal sufficient node count %d, scan brought the group to %d (untainted %d, requested %d)",
					g.Name, d.ReqCPU, d.ReqMem, len(g.U), g.Spec.Opts.ScaleUpThresholdPercent, d.NMin, got, inService+o.noopRemoves, got-int64(len(g.U)+inService+o.noopRemoves)))
			}
		}

		if ctx.Faulted {
			// the remaining clauses are stated for fault-free scans; a scan whose only injected failures
			// hit removal calls (terminate / Kubernetes delete) still has to taint by the band rule
			if d.Class == "fast" || d.Class == "slow" {
				onlyRemoval := true
				for _, e := range ctx.Entries {
					if e.Err == "injected" && e.Op != sim.OpTerminate && e.Op != sim.OpK8sDelete {
						onlyRemoval = false
					}
				}
				// failing get / update calls on untainted nodes: the controller makes up for a failed taint
				// with the next-oldest node, so the count still has to reach the band's number whenever
				// enough nodes without a failure remain
				onlyTaintWrites := true
				for _, e := range ctx.Entries {
					if e.Err == "injected" && e.Op != sim.OpK8sGet && e.Op != sim.OpK8sUpdate {
						onlyTaintWrites = false
					}
				}
				if onlyTaintWrites && !onlyRemoval && len(g.U) >= g.Min && d.Edge == "" && !d.Starve && !d.MaxAge && !g.Spec.Opts.ScaleOnStarve && len(g.T) == 0 && len(g.F) == 0 {
					healthy := 0
					for _, n := range g.U {
						if !o.failedNodes[n.Name] {
							healthy++
						}
					}
					if healthy >= d.TaintWant {
						ctx.H.Cov["c06.band-checked-under-taint-failures"]++
						if len(o.adds)+o.noopAdds != d.TaintWant {
							add("C06", "C06/band/"+d.Class+"/under-taint-failure", fmt.Sprintf("group %s: a taint write failed in this scan, %d untainted nodes had no failure; utilisation is in the %s band with |U|=%d min=%d: expected %d taints, saw %d",
								g.Name, healthy, d.Class, len(g.U), g.Min, d.TaintWant, len(o.adds)))
						}
					}
				}
				if onlyRemoval && len(g.U) >= g.Min && d.Edge == "" && !d.Starve && !d.MaxAge && !g.Spec.Opts.ScaleOnStarve {
					ctx.H.Cov["c06.band-checked-under-removal-faults"]++
					if len(o.adds)+o.noopAdds != d.TaintWant {
						add("C06", "C06/band/"+d.Class+"/under-removal-failure", fmt.Sprintf("group %s: a terminate / delete call failed in this scan; utilisation is in the %s band with |U|=%d min=%d: expected %d taints, saw %d",
							g.Name, d.Class, len(g.U), g.Min, d.TaintWant, len(o.adds)))
					}
				}
			}
			// C03 restore clause under failing untaint reads / writes only: a node whose untaint failed is
			// not restored, so the next tainted node or the cloud request has to make up for it
			if d.Class == "restore" && faultsOnlyNodeWrites {
				usable := 0
				for _, n := range g.T {
					if !o.failedNodes[n.Name] {
						usable++
					}
				}
				want := d.Need
				if want > usable {
					want = usable
				}
				k := len(o.removes) + o.noopRemoves
				if k < want {
					add("C03", "C03/restore-untaint-count/under-untaint-failure", fmt.Sprintf("group %s: %d untainted < min %d, %d of %d tainted nodes can be untainted: expected %d untaints, saw %d", g.Name, len(g.U), g.Min, usable, len(g.T), want, k))
				}
				rem := int64(d.Need - k)
				var asked int64
				for _, e := range o.incr {
					if e.Op == sim.OpSetDesired {
						asked += e.Val - e.RealDesired
					} else {
						asked += e.Val
					}
				}
				head := B - (g.CloudDesired - int64(o.terminatedBeforeIncr))
				exp := rem
				if exp > head {
					exp = head
				}
				if exp < 0 {
					exp = 0
				}
				if rem > 0 && k >= want && asked != exp {
					add("C03", "C03/restore-request/under-untaint-failure", fmt.Sprintf("group %s: restore needs %d more after %d successful untaints (some failed), headroom %d: expected a request for %d, saw %d", g.Name, rem, k, head, exp, asked))
				}
			}
			continue
		}

		// ---- C03: restore clause
		if d.Class == "restore" {
			ctx.H.Cov["c03.restore-scans"]++
			if len(o.adds) > 0 {
				add("C03", "C03/taint-below-min", fmt.Sprintf("group %s: %d untainted < min %d but %d nodes were tainted", g.Name, len(g.U), g.Min, len(o.adds)))
			}
			want := d.Need
			if want > len(g.T) {
				want = len(g.T)
			}
			if len(o.removes)+o.noopRemoves != want {
				add("C03", "C03/restore-untaint-count", fmt.Sprintf("group %s: %d untainted < min %d with %d tainted nodes: expected %d untaints, saw %d", g.Name, len(g.U), g.Min, len(g.T), want, len(o.removes)))
			}
			rem := int64(d.Need - len(o.removes) - o.noopRemoves)
			var asked int64
			for _, e := range o.incr {
				if e.Op == sim.OpSetDesired {
					asked += e.Val - e.RealDesired
				} else {
					asked += e.Val
				}
			}
			real := g.CloudDesired - int64(o.terminatedBeforeIncr)
			head := B - real
			exp := rem
			if exp > head {
				exp = head
			}
			if exp < 0 {
				exp = 0
			}
			if rem > 0 && asked != exp {
				add("C03", "C03/restore-request", fmt.Sprintf("group %s: restore needs %d more after %d untaints, headroom %d: expected a request for %d, saw %d", g.Name, rem, len(o.removes), head, exp, asked))
			}
		}

		// ---- C06: bands
		if len(g.U) >= g.Min && d.Class != "under-min" && d.Class != "over-max" && d.Class != "empty" && d.Class != "undefined" && d.Class != "restore" {
			canAdd := len(g.T) > 0 || B-g.CloudDesired > 0
			added := len(o.removes) + o.noopRemoves + len(o.incr)
			starveSure, starveMaybe := starveCertainty(g, d)
			maxAgeMaybe := maxAgePossible(g, ctx.Start)
			trigger := starveSure || d.MaxAge
			ambiguous := (starveMaybe && !starveSure) || (maxAgeMaybe && !d.MaxAge)
			okBand := func() (bool, string) {
				switch d.Class {
				case "fast", "slow":
					if len(o.adds)+o.noopAdds != d.TaintWant || len(o.removes) != 0 || len(o.incr) != 0 {
						return false, fmt.Sprintf("expected exactly %d taints and nothing else", d.TaintWant)
					}
				case "idle":
					if len(o.adds) != 0 || len(o.removes) != 0 || len(o.incr) != 0 {
						return false, "expected no taint, no untaint and no capacity request"
					}
				case "up":
					if len(o.adds) != 0 || (added == 0 && canAdd) {
						return false, "expected capacity to be added and no taint"
					}
				}
				return true, ""
			}
			okTrigger := func() (bool, string) {
				if len(o.adds) != 0 || (added == 0 && canAdd) {
					return false, "scale_on_starve / max_node_age applies: expected at least one node of capacity added and no taint"
				}
				return true, ""
			}
			okUp := func() bool { return len(o.adds) == 0 && (added > 0 || !canAdd) }
			var ok bool
			var why string
			switch {
			case trigger && !ambiguous:
				ok, why = okTrigger()
			case ambiguous || trigger:
				ok1, w1 := okBand()
				ok2, _ := okTrigger()
				ok, why = ok1 || ok2, w1
			default:
				ok, why = okBand()
			}
			if !ok && d.Edge == "up" && okUp() {
				ok = true // u == scale-up threshold exactly: statement says "above", docs say "70 % = scale up"
			}
			if !ok {
				sig := "C06/band/" + d.Class
				if d.Edge != "" && floatInexactAtEdge(g, d) {
					// exact utilisation sits on a threshold but the float64 evaluation of the documented
					// formula req/cap*100 does not: the known float-equality family
					sig = "C06/band-edge/float-equality/" + d.Edge
				}
				if trigger {
					sig = "C06/trigger"
				}
				u := "inf"
				if d.Util != nil {
					u = d.Util.FloatString(6)
				}
				add("C06", sig, fmt.Sprintf("group %s: u=%s%% (req %dm/%dB over cap %dm/%dB), thresholds %d/%d/%d, |U|=%d min=%d: class %s edge %q: %s; saw %d taints, %d untaints, %d capacity requests",
					g.Name, u, d.ReqCPU, d.ReqMem, d.CapCPU, d.CapMem, g.Spec.Opts.TaintLowerCapacityThresholdPercent, g.Spec.Opts.TaintUpperCapacityThresholdPercent, g.Spec.Opts.ScaleUpThresholdPercent,
					len(g.U), g.Min, d.Class, d.Edge, why, len(o.adds), len(o.removes), len(o.incr)))
			}
		}
	}
	m.lock.observe(ctx)
	return out
}

// starveCertainty: sure = the largest pending pod by CPU exceeds the largest free CPU on any untainted
// node, or likewise for memory (such a pod can be scheduled nowhere: the documented trigger
// certainly applies); maybe = some pending pod fits no single untainted node entirely although it
// would fit by CPU on one node and by memory on another (the documentation says "cannot currently
// be scheduled", the trigger's heuristic looks at one resource at a time: either answer accepted).
func starveCertainty(g *h.GroupView, d ref.Decision) (sure, maybe bool) {
	if !g.Spec.Opts.ScaleOnStarve {
		return false, false
	}
	if len(g.U) >= g.Max {
		// the trigger is documented for groups that can still grow
		return false, d.Starve
	}
	type free struct{ c, m int64 }
	var fs []free
	for _, n := range g.U {
		f := free{c: n.Status.Allocatable.Cpu().MilliValue(), m: n.Status.Allocatable.Memory().Value()}
		for _, p := range g.Pods {
			if p.Spec.NodeName == n.Name {
				c, mm := ref.PodRequest(p)
				f.c -= c
				f.m -= mm
			}
		}
		fs = append(fs, f)
	}
	for _, p := range g.Pods {
		if p.Status.Phase != v1.PodPending || p.Spec.NodeName != "" {
			continue
		}
		c, mm := ref.PodRequest(p)
		if c == 0 && mm == 0 {
			continue
		}
		fitsSome := false
		for _, f := range fs {
			if c <= f.c && mm <= f.m {
				fitsSome = true
			}
		}
		if !fitsSome {
			maybe = true
		}
	}
	return d.Starve, maybe || d.Starve
}

func maxAgePossible(g *h.GroupView, now time.Time) bool {
	dur, err := time.ParseDuration(g.Spec.Opts.MaxNodeAge)
	if err != nil || dur <= 0 || len(g.U) != g.Min {
		return false
	}
	for _, n := range g.U {
		if now.Sub(n.CreationTimestamp.Time) > dur {
			return true
		}
	}
	return false
}

// floatInexactAtEdge reports whether float64(req)/float64(cap)*100 (in milli-units, as the
// documentation's formula is evaluated in float64) differs from the threshold the exact
// utilisation equals.
func floatInexactAtEdge(g *h.GroupView, d ref.Decision) bool {
	th := map[string]int{"lower": g.Spec.Opts.TaintLowerCapacityThresholdPercent, "upper": g.Spec.Opts.TaintUpperCapacityThresholdPercent, "up": g.Spec.Opts.ScaleUpThresholdPercent}[d.Edge]
	fc := float64(d.ReqCPU) / float64(d.CapCPU) * 100
	fm := float64(d.ReqMem*1000) / float64(d.CapMem*1000) * 100
	f := fc
	if fm > f {
		f = fm
	}
	return f != float64(th)
}
