package props

import (
	"fmt"
	"time"

	"github.com/atlassian/escalator/pkg/cloudprovider"
	awsprov "github.com/atlassian/escalator/pkg/cloudprovider/aws"
	v1 "k8s.io/api/core/v1"

	"verif/h"
	"verif/sim"
)

// occDecider fails the listed occurrences (1-based) of an operation.
type occDecider struct {
	fail  map[string]map[int]bool
	count map[string]int
}

func newOccDecider() *occDecider {
	return &occDecider{fail: map[string]map[int]bool{}, count: map[string]int{}}
}

func (d *occDecider) failAt(op string, k int) *occDecider {
	if d.fail[op] == nil {
		d.fail[op] = map[int]bool{}
	}
	d.fail[op][k] = true
	return d
}

func (d *occDecider) Decide(op, target string) sim.Verdict {
	d.count[op]++
	if d.fail[op][d.count[op]] {
		return sim.Fail
	}
	return sim.OK
}

// provEnv is the real AWS provider over a simulated AWS with one group.
type provEnv struct {
	W    *sim.World
	ASG  *sim.ASG
	Prov cloudprovider.CloudProvider
	NG   cloudprovider.NodeGroup
}

func newProvEnv(asg sim.ASG, instances int, cfg cloudprovider.AWSNodeGroupConfig) (*provEnv, error) {
	w := sim.NewWorld()
	w.Phase = "group"
	w.Groups = []string{"g1"}
	w.GroupASG["g1"] = asg.Name
	asg.LabelKey, asg.LabelValue = "customer", "g1"
	a := w.AddASG(asg)
	for i := 0; i < instances; i++ {
		w.AddNode(a, sim.NodeOpt{Age: time.Duration(10+i) * time.Minute})
	}
	// AddNode raises desired with every instance; callers may overwrite Desired afterwards
	prov, err := awsprov.VerifNewCloudProvider(sim.ASGAPI{W: w}, sim.EC2API{W: w}, []cloudprovider.NodeGroupConfig{{Name: "g1", GroupID: asg.Name, AWSConfig: cfg}})
	if err != nil {
		return nil, err
	}
	ng, ok := prov.GetNodeGroup(asg.Name)
	if !ok {
		return nil, fmt.Errorf("group %s not registered", asg.Name)
	}
	return &provEnv{W: w, ASG: a, Prov: prov, NG: ng}, nil
}

// callProtected runs f and converts the harness's exit sentinel into a flag.
func callProtected(f func() error) (err error, exit bool, panicked any) {
	defer func() {
		if r := recover(); r != nil {
			if _, ok := r.(h.ExitSentinel); ok {
				exit = true
				return
			}
			panicked = r
		}
	}()
	return f(), false, nil
}

func storeNodes(w *sim.World, k int) []*v1.Node {
	var out []*v1.Node
	for i := 0; i < k && i < len(w.Nodes); i++ {
		out = append(out, w.Nodes[i].DeepCopy())
	}
	return out
}

// fleetAlgebra checks the C18 set algebra on the journal entries of one fleet scale-up.
// It returns (signature, message) pairs.
func fleetAlgebra(entries []sim.Entry) (sigs [][2]string, acquired, attached, submitted map[string]int) {
	acquired, attached, submitted = map[string]int{}, map[string]int{}, map[string]int{}
	for _, e := range entries {
		switch e.Op {
		case sim.OpCreateFleet:
			for _, id := range e.IDs {
				acquired[id]++
			}
		case sim.OpAttach:
			if e.Err == "" {
				for _, id := range e.IDs {
					attached[id]++
				}
			}
		case sim.OpTermIns:
			if len(e.IDs) > 1000 {
				sigs = append(sigs, [2]string{"C18/terminate-batch>1000", fmt.Sprintf("a TerminateInstances call carries %d instance ids", len(e.IDs))})
			}
			seen := map[string]bool{}
			for _, id := range e.IDs {
				if !seen[id] {
					submitted[id]++
					seen[id] = true
				}
			}
		}
	}
	both, neither, foreign := 0, 0, 0
	for id := range acquired {
		a, s := attached[id] > 0, submitted[id] > 0
		if a && s {
			both++
		}
		if !a && !s {
			neither++
		}
	}
	for id := range attached {
		if acquired[id] == 0 {
			foreign++
		}
	}
	for id := range submitted {
		if acquired[id] == 0 {
			foreign++
		}
	}
	if both > 0 {
		sigs = append(sigs, [2]string{"C18/attached-and-terminated", fmt.Sprintf("%d acquired instances were both attached and submitted for termination", both)})
	}
	if neither > 0 {
		sigs = append(sigs, [2]string{"C18/leaked", fmt.Sprintf("%d of %d acquired instances were neither attached nor submitted for termination", neither, len(acquired))})
	}
	if foreign > 0 {
		sigs = append(sigs, [2]string{"C18/foreign-instance", fmt.Sprintf("%d instance ids attached or terminated were not acquired by this request", foreign)})
	}
	for id, n := range attached {
		if n > 1 {
			sigs = append(sigs, [2]string{"C18/attached-twice", "instance " + id + " attached more than once"})
			break
		}
	}
	return
}
