package props

import (
	"encoding/json"
	"fmt"
	"math"
	"strings"
	"testing"
	"time"

	"github.com/atlassian/escalator/pkg/controller"
	v1 "k8s.io/api/core/v1"
	"k8s.io/apimachinery/pkg/api/resource"

	"verif/h"
	"verif/ref"
	"verif/sim"
)

// ---------------------------------------------------------------------------------------------
// C05 — scale-up amount is sufficient and at most one node above the minimum

type c05Case struct {
	N        int   // untainted equal nodes (0 = scale from zero with a cached size)
	C        int64 // node CPU, millicores
	M        int64 // node memory, bytes
	T        int   // scale-up threshold
	ReqCPU   int64 // total requested millicores
	ReqMem   int64 // total requested bytes
	NoCache  bool  // from zero, never saw a node
	EndToEnd bool
	// PrevC / PrevM: size of the nodes seen in an earlier scan, before nodes of size C / M were seen
	// (0 = no earlier generation). The last observed size must be the one used.
	PrevC, PrevM int64
	// end-to-end single scans with out-of-service nodes present
	U, Tn, Cn, Fn, Need int
	// Launching: instances the ASG has requested but that have not started yet (desired capacity is
	// ahead of the instance count)
	Launching int
	// BusyOut: part of the load runs on the cordoned / force-tainted nodes (it still counts as requests)
	BusyOut bool
	// Both: nodes carrying the force-removal taint AND the escalator taint (force-removal wins: they are
	// not untaint candidates)
	Both int
	// Fleet: the group scales through CreateFleet + AttachInstances (launch template set)
	Fleet bool
}

// c05Eval runs the real arithmetic on one case. ok=false means the case is not in the property's
// domain (utilisation does not exceed the threshold, in exact or in float arithmetic).
func c05Eval(p c05Case) (nPrime int, nMin int, domain bool, err error) {
	cpuReq := *resource.NewMilliQuantity(p.ReqCPU, resource.DecimalSI)
	memReq := *resource.NewQuantity(p.ReqMem, resource.BinarySI)
	cpuCap := *resource.NewMilliQuantity(p.C*int64(p.N), resource.DecimalSI)
	memCap := *resource.NewQuantity(p.M*int64(p.N), resource.BinarySI)
	opts := controller.NodeGroupOptions{Name: "g", ScaleUpThresholdPercent: p.T}
	nMin = ref.NMinFor(p.ReqCPU, p.ReqMem, p.C, p.M, int64(p.T))
	cpuP, memP, e := controller.VerifCalcPercentUsage(cpuReq, memReq, cpuCap, memCap, int64(p.N))
	if e != nil {
		return 0, nMin, false, e
	}
	if p.N > 0 {
		// exact: u > T  <=>  100*req > T*cap for either resource
		exact := 100*p.ReqCPU > int64(p.T)*p.C*int64(p.N) || mulGT(100, p.ReqMem, int64(p.T), p.M*int64(p.N))
		if !exact || !(math.Max(cpuP, memP) > float64(p.T)) {
			return 0, nMin, false, nil
		}
	} else if cpuP != math.MaxFloat64 {
		return 0, nMin, false, nil
	}
	cachedC, cachedM := *resource.NewMilliQuantity(p.C, resource.DecimalSI), *resource.NewQuantity(p.M, resource.BinarySI)
	if p.NoCache {
		cachedC, cachedM = resource.Quantity{}, resource.Quantity{}
	}
	d, e := controller.VerifCalcScaleUpDelta(make([]*v1.Node, p.N), cpuP, memP, cpuReq, memReq, opts, cachedC, cachedM)
	if e != nil {
		return 0, nMin, true, e
	}
	return p.N + d, nMin, true, nil
}

// mulGT reports a*b > c*d without overflow for the magnitudes of the grid (uses float-free split).
func mulGT(a, b, c, d int64) bool {
	// all operands are < 2^52 and a, c <= 200: use 128-bit via math/big-free decomposition
	hi1, lo1 := mul64(uint64(a), uint64(b))
	hi2, lo2 := mul64(uint64(c), uint64(d))
	return hi1 > hi2 || (hi1 == hi2 && lo1 > lo2)
}

func mul64(x, y uint64) (hi, lo uint64) {
	const mask32 = 1<<32 - 1
	x0, x1 := x&mask32, x>>32
	y0, y1 := y&mask32, y>>32
	w0 := x0 * y0
	t := x1*y0 + w0>>32
	w1 := t & mask32
	w2 := t >> 32
	w1 += x0 * y1
	hi = x1*y1 + w2 + w1>>32
	lo = x * y
	return
}

func c05Check(c *h.Collector, p c05Case) {
	c.R.Evaluations++
	np, nmin, domain, err := c05Eval(p)
	if !domain {
		c.R.Cov["c05.outside-domain"]++
		return
	}
	report := func(sig, msg string) {
		c.Report(h.Found{Violation: h.Violation{Prop: "C05", Sig: sig, Msg: msg}, Scenario: "c05.arith", Case: p})
	}
	if err != nil {
		report("C05/arith-error", fmt.Sprintf("%+v: %v", p, err))
		return
	}
	if p.NoCache {
		if np != 1 {
			report("C05/from-zero-no-cache", fmt.Sprintf("%+v: never saw a node, asked for %d nodes instead of exactly 1", p, np))
		}
		c.Nontrivial(fmt.Sprintf("nocache/%d/%d", p.ReqCPU, p.ReqMem))
		return
	}
	c.R.Cov["c05.in-domain"]++
	if np == nmin+1 {
		c.R.Cov["c05.one-above-minimum"]++
	}
	c.Nontrivial(fmt.Sprintf("%d/%d/%d/%d/%d/%d", p.N, p.C, p.M, p.T, p.ReqCPU, p.ReqMem))
	if np < nmin {
		report("C05/insufficient", fmt.Sprintf("%+v: brings the group to %d nodes, %d are needed to sit at or below %d %%", p, np, nmin, p.T))
	} else if np > nmin+1 {
		report("C05/overshoot", fmt.Sprintf("%+v: brings the group to %d nodes, the minimum is %d", p, np, nmin))
	}
	if len(c.R.Samples) < 2 {
		c.R.Samples = append(c.R.Samples, map[string]any{"case": p, "result_nodes": np, "minimal_nodes": nmin})
	}
}

// ---- end to end: scale from zero after having observed nodes of size (C, M)

func c05FromZero(p c05Case, rotate int) *h.Scenario {
	g := StdGroup("g1")
	g.Opts.MinNodes, g.Opts.MaxNodes = 0, 40
	g.ASG.Max = 40
	g.ASG.CPUMilli, g.ASG.MemBytes = p.C, p.M
	g.Opts.ScaleUpThresholdPercent = p.T
	g.Opts.TaintLowerCapacityThresholdPercent, g.Opts.TaintUpperCapacityThresholdPercent = 1, 2
	addGen := func(hh *h.Hist, a *sim.ASG, c, m int64) {
		for i := 0; i < 2; i++ {
			n := hh.W.AddNode(a, sim.NodeOpt{Age: time.Duration(10+i) * Q, CPUMilli: c, MemBytes: m})
			// 2.5 % utilisation: between the upper taint threshold (2) and the scale-up threshold (>= 3), so these scans do nothing
			hh.W.AddPod(sim.PodOpt{Node: n.Name, CPUMilli: c * 25 / 1000, MemBytes: m * 25 / 1000, Selector: sel(g)})
		}
	}
	wipe := func(hh *h.Hist) {
		a := hh.W.FindASG(g.ASG.Name)
		for _, in := range a.Instances {
			hh.W.EC2[in.ID].State = "terminated"
		}
		a.Instances, a.Desired = nil, 0
		hh.W.Nodes, hh.W.Pods = nil, nil
	}
	gens := 1
	if p.PrevC > 0 {
		gens = 2
	}
	return &h.Scenario{
		Name: "c05.from-zero", Groups: []h.GroupSpec{g}, Slots: gens + 1, Quantum: Q,
		Init: func(hh *h.Hist) {
			a := InitASGs(hh)[0]
			if p.NoCache {
				return
			}
			if p.PrevC > 0 {
				addGen(hh, a, p.PrevC, p.PrevM)
			} else {
				addGen(hh, a, p.C, p.M)
			}
		},
		Script: func(hh *h.Hist, slot int) {
			if slot == 0 {
				hh.PermNodes = rotate
			}
			if gens == 2 && slot == 1 {
				// the first generation of nodes is replaced by nodes of the final size
				wipe(hh)
				addGen(hh, hh.W.FindASG(g.ASG.Name), p.C, p.M)
			}
			if slot != gens {
				return
			}
			// every node goes away; a burst of pods arrives
			wipe(hh)
			hh.W.AddPod(sim.PodOpt{CPUMilli: p.ReqCPU, MemBytes: p.ReqMem, Selector: sel(g)})
		},
	}
}

// c05Mixed: one scan of a group with U untainted equal nodes plus tainted, cordoned (odd-sized) and
// force-tainted nodes; requests chosen so that the minimal sufficient count is exactly U+Need.
func c05Mixed(p c05Case) *h.Scenario {
	g := StdGroup("g1")
	g.Opts.MinNodes, g.Opts.MaxNodes = 0, 30
	g.ASG.Max = 30
	g.Opts.ScaleUpThresholdPercent = p.T
	g.Opts.TaintLowerCapacityThresholdPercent, g.Opts.TaintUpperCapacityThresholdPercent = 1, 2
	if p.Fleet {
		g.Opts.AWS.LaunchTemplateID, g.Opts.AWS.LaunchTemplateVersion = "lt-1", "1"
		g.Opts.MaxNodes, g.ASG.Max = 80, 80
	}
	return &h.Scenario{
		Name: "c05.mixed", Groups: []h.GroupSpec{g}, Slots: 1, Quantum: Q,
		Init: func(hh *h.Hist) {
			a := InitASGs(hh)[0]
			k := 0
			add := func(n int, o sim.NodeOpt) {
				for i := 0; i < n; i++ {
					k++
					o.Age = time.Duration(10+k) * Q
					hh.W.AddNode(a, o)
				}
			}
			add(p.Cn, sim.NodeOpt{Cordoned: true, CPUMilli: 4000, MemBytes: 16 << 30})
			add(p.U, sim.NodeOpt{})
			add(p.Tn, sim.NodeOpt{TaintAge: dp(0)})
			add(p.Fn, sim.NodeOpt{ForceTaint: true})
			add(p.Both, sim.NodeOpt{ForceTaint: true, TaintAge: dp(0)})
			a.Desired += int64(p.Launching)
			total := int64(p.T) * 10 * int64(p.U+p.Need)
			if p.BusyOut {
				for _, n := range hh.W.Nodes {
					_, force := h.HasTaint(n, h.ForceTaintKey)
					// one node's worth of the threshold each, so that leaving them out changes the node count
					per := int64(p.T) * 10
					if (n.Spec.Unschedulable || force) && total > per {
						hh.W.AddPod(podOn(g, n.Name, per))
						total -= per
					}
				}
			}
			hh.W.AddPod(podOn(g, "", total))
		},
	}
}

// FromZeroAmount checks the second scan of the from-zero mini-history.
type FromZeroAmount struct{ P c05Case }

func (FromZeroAmount) Key() string { return "" }
func (m FromZeroAmount) AfterScan(ctx *h.ScanCtx) []h.Violation {
	if ctx.H.Slot != ctx.H.S.Slots-1 {
		return nil
	}
	g := ctx.Groups[0]
	var asked int64 = -1
	for _, e := range ctx.Entries {
		if e.Op == sim.OpSetDesired {
			asked = e.Val - e.RealDesired
		}
	}
	nmin := int64(ref.NMinFor(m.P.ReqCPU, m.P.ReqMem, m.P.C, m.P.M, int64(m.P.T)))
	lo, hi := nmin, nmin+1
	if m.P.NoCache {
		lo, hi = 1, 1
	}
	B := int64(g.Max)
	if g.CloudMax < B {
		B = g.CloudMax
	}
	if lo > B {
		lo, hi = B, B
	}
	if hi > B {
		hi = B
	}
	ctx.H.Cov["c05.from-zero-scans"]++
	if asked < lo || asked > hi {
		return []h.Violation{{Prop: "C05", Sig: "C05/from-zero-amount", Msg: fmt.Sprintf("from zero nodes with last observed size %dm/%dB, requests %dm/%dB, threshold %d: asked for %d nodes, expected %d..%d", m.P.C, m.P.M, m.P.ReqCPU, m.P.ReqMem, m.P.T, asked, lo, hi)}}
	}
	return nil
}

// C05FaultScenarios: mixed groups scaling up with every get / update of the untaint loop failing
// (a node whose untaint failed is not in service: the request must make up for it), and groups at
// min_nodes with an over-age node while utilisation also demands several nodes.
func C05FaultScenarios(tier string) []*h.Scenario {
	var out []*h.Scenario
	for u := 1; u <= 3; u++ {
		for tn := 1; tn <= 3; tn++ {
			for need := 1; need <= 3; need++ {
				p := c05Case{T: 70, U: u, Tn: tn, Need: need, EndToEnd: true, C: 1000, M: 4 << 30}
				s := c05Mixed(p)
				s.Name = fmt.Sprintf("c05.mixed-faults.U%dT%dN%d", u, tn, need)
				s.FaultOps = map[string]bool{sim.OpK8sGet: true, sim.OpK8sUpdate: true}
				out = append(out, s)
			}
		}
	}
	for u := 1; u <= 3; u++ {
		for need := 1; need <= 4; need++ {
			p := c05Case{T: 70, U: u, Need: need, EndToEnd: true, C: 1000, M: 4 << 30}
			s := c05Mixed(p)
			s.Name = fmt.Sprintf("c05.max-age.U%dN%d", u, need)
			s.Groups[0].Opts.MaxNodeAge = "1h"
			s.Groups[0].Opts.MinNodes = u
			inner := s.Init
			s.Init = func(hh *h.Hist) {
				inner(hh)
				hh.W.Nodes[0].CreationTimestamp.Time = hh.W.Nodes[0].CreationTimestamp.Add(-36 * time.Hour)
			}
			out = append(out, s)
		}
	}
	// three empty force-tainted nodes are removed earlier in the scan, with every terminate call failing
	for u := 1; u <= 2; u++ {
		for need := 1; need <= 2; need++ {
			p := c05Case{T: 70, U: u, Fn: 3, Need: need, EndToEnd: true, C: 1000, M: 4 << 30}
			s := c05Mixed(p)
			s.Name = fmt.Sprintf("c05.mixed-removal-faults.U%dN%d", u, need)
			s.FaultOps = map[string]bool{sim.OpTerminate: true}
			out = append(out, s)
		}
	}
	// the provider is rebuilt (a refresh fails) between two scale-ups: the second amount must be
	// computed on the cloud group as it is now
	for _, fleet := range []bool{false, true} {
		s := c07Rebuild(fleet)
		s.Name = strings.Replace(s.Name, "c07.", "c05.", 1)
		out = append(out, s)
	}
	// auto-discovered bounds: the operator raises the cloud maximum while escalator runs; the next
	// scale-up may use the new room
	{
		g := StdGroup("g1")
		g.Opts.MinNodes, g.Opts.MaxNodes = 0, 0
		g.ASG.Min, g.ASG.Max = 1, 4
		g.Opts.ScaleUpCoolDownPeriod = "30s"
		s := &h.Scenario{Name: "c05.auto-max-raised", Groups: []h.GroupSpec{g}, Slots: 4, Quantum: Q, MaxEventsPerSlot: 1,
			Init: func(hh *h.Hist) {
				a := InitASGs(hh)[0]
				for i := 0; i < 3; i++ {
					n := hh.W.AddNode(a, sim.NodeOpt{Age: time.Duration(10+i) * Q})
					hh.W.AddPod(podOn(g, n.Name, 1000))
				}
				hh.W.AddPod(podOn(g, "", 1000))
			},
			Script: func(hh *h.Hist, slot int) {
				if slot == 1 {
					hh.W.FindASG(g.ASG.Name).Max = 10
				}
			},
			Events: func(hh *h.Hist, slot int) []h.Event { return []h.Event{evRestart(), evBurst(g, 1, 1000)} },
		}
		out = append(out, s)
	}
	return out
}

func c05Grid(t *testing.T, tier string, shard, shards int, c *h.Collector) {
	sizesC := []int64{1000, 1500, 2000, 3900, 7910, 16000}
	sizesM := []int64{1000, 1 << 30, 16 << 30, 64 << 30, 256 << 30}
	maxN := 6
	if tier == "thorough" {
		maxN = 12
	} else {
		sizesC = []int64{1000, 3900, 7910}
		sizesM = []int64{1000, 16 << 30, 256 << 30}
	}
	var ths []int
	for th := 1; th <= 100; th++ {
		ths = append(ths, th)
	}
	ths = append(ths, 120, 150, 200)
	idx := 0
	for n := 0; n <= maxN; n++ {
		for _, cc := range sizesC {
			for _, mm := range sizesM {
				idx++
				if idx%shards != shard {
					continue
				}
				for _, th := range ths {
					lo := n
					if lo < 1 {
						lo = 1
					}
					for target := lo; target <= n+10; target++ {
						// requests at which the minimal sufficient node count changes: 100*R = T*N*size
						for _, eps := range []int64{-1, 0, 1} {
							rc := int64(th)*int64(target)*cc/100 + eps
							rm := int64(th)*int64(target)*mm/100 + eps
							if rc > 0 {
								c05Check(c, c05Case{N: n, C: cc, M: mm, T: th, ReqCPU: rc, ReqMem: 1})
							}
							if rm > 0 {
								c05Check(c, c05Case{N: n, C: cc, M: mm, T: th, ReqCPU: 1, ReqMem: rm})
							}
							if rc > 0 && rm > 0 && eps == 0 {
								c05Check(c, c05Case{N: n, C: cc, M: mm, T: th, ReqCPU: rc, ReqMem: rm})
							}
						}
					}
					// coarse interior sweep
					for k := int64(1); k <= 7; k++ {
						c05Check(c, c05Case{N: n, C: cc, M: mm, T: th, ReqCPU: cc * int64(lo) * (int64(th) + 13*k) / 100, ReqMem: mm * int64(lo) * int64(th) / 200})
					}
				}
				if n == 0 {
					c05Check(c, c05Case{N: 0, C: cc, M: mm, T: 70, ReqCPU: 12345, ReqMem: 1 << 20, NoCache: true})
				}
			}
		}
	}
	// large clusters: hundreds of big nodes (memory totals beyond 2^46 bytes)
	if shard == 0 {
		for _, n := range []int{100, 400, 1000} {
			for _, th := range []int{50, 70, 90} {
				for _, pct := range []int64{86, 99, 120, 250} {
					m := int64(256) << 30
					c05Check(c, c05Case{N: n, C: 64000, M: m, T: th, ReqCPU: 1000, ReqMem: m / 100 * pct * int64(n)})
					c05Check(c, c05Case{N: n, C: 64000, M: m, T: th, ReqCPU: 640 * pct * int64(n), ReqMem: 1 << 30})
				}
			}
		}
	}
	// end to end: single scans with tainted / cordoned / force-tainted nodes present
	mixed := 0
	for _, th := range []int{33, 70, 100} {
		for u := 1; u <= 4; u++ {
			for tn := 0; tn <= 3; tn++ {
				for cn := 0; cn <= 2; cn++ {
					for fn := 0; fn <= 1; fn++ {
						for need := 1; need <= 4; need++ {
							mixed++
							if mixed%shards != shard {
								continue
							}
							for _, launching := range []int{0, 2, -1} {
								if launching > 0 && (cn > 0 || fn > 0) {
									continue
								}
								if launching < 0 && cn == 0 && fn == 0 {
									continue
								}
								p := c05Case{T: th, U: u, Tn: tn, Cn: cn, Fn: fn, Need: need, EndToEnd: true, C: 1000, M: 4 << 30, Launching: launching}
								if launching < 0 {
									// third variant: part of the load runs on the out-of-service nodes
									p.Launching, p.BusyOut = 0, true
								}
								s := c05Mixed(p)
								s.Monitors = func() []h.Monitor { return []h.Monitor{NewDecisions()} }
								hh := gridCase(t, c, s, p)
								for _, k := range seenKeys(hh) {
									c.Nontrivial(fmt.Sprintf("mixed/%d/l%d/%s", th, launching, k))
								}
							}
						}
					}
				}
			}
		}
	}
	// nodes carrying both taints next to the untainted ones; three empty force-tainted nodes whose
	// removal fails part-way (explored below with every terminate call failing)
	if shard == 0 {
		for u := 1; u <= 3; u++ {
			for need := 1; need <= 3; need++ {
				for _, tn := range []int{0, 1} {
					p := c05Case{T: 70, U: u, Tn: tn, Both: 1, Need: need, EndToEnd: true, C: 1000, M: 4 << 30}
					s := c05Mixed(p)
					s.Monitors = func() []h.Monitor { return []h.Monitor{NewDecisions()} }
					hh := gridCase(t, c, s, p)
					for _, k := range seenKeys(hh) {
						c.Nontrivial(fmt.Sprintf("both/%d/%d/%d/%s", u, tn, need, k))
					}
				}
			}
		}
	}
	// fleet mode: the amount has to arrive in the cloud group, not only in the CreateFleet request
	// (amounts around the attach batch size of 20)
	if shard == 0 {
		for _, need := range []int{1, 19, 20, 21, 39, 40, 41, 60} {
			for _, u := range []int{1, 3} {
				p := c05Case{T: 70, U: u, Need: need, EndToEnd: true, C: 1000, M: 4 << 30, Fleet: true}
				s := c05Mixed(p)
				s.Monitors = func() []h.Monitor { return []h.Monitor{NewDecisions()} }
				hh := gridCase(t, c, s, p)
				for _, k := range seenKeys(hh) {
					c.Nontrivial(fmt.Sprintf("fleet/%d/%d/%s", u, need, k))
				}
			}
		}
	}
	// end to end: from zero after the node size changed (the last observed size counts)
	gen := 0
	for _, sz := range [][4]int64{{1000, 4 << 30, 4000, 16 << 30}, {4000, 16 << 30, 1000, 4 << 30}} {
		for _, th := range []int{33, 70} {
			for target := 1; target <= 6; target++ {
				gen++
				if gen%shards != shard {
					continue
				}
				rc := int64(th) * int64(target) * sz[2] / 100
				p := c05Case{N: 0, PrevC: sz[0], PrevM: sz[1], C: sz[2], M: sz[3], T: th, ReqCPU: rc, ReqMem: 1, EndToEnd: true}
				s := c05FromZero(p, 0)
				s.Monitors = func() []h.Monitor { return []h.Monitor{FromZeroAmount{p}} }
				gridCase(t, c, s, p)
				c.Nontrivial(fmt.Sprintf("e2e-gen/%v/%d/%d", sz, th, rc))
			}
		}
	}
	// end to end: from zero
	e2e := 0
	for _, cc := range []int64{1000, 3900} {
		for _, mm := range []int64{16 << 30, 1000} {
			for _, th := range []int{3, 33, 70, 100, 150} {
				for target := 1; target <= 6; target++ {
					for _, eps := range []int64{-1, 0, 1} {
						for _, nocache := range []bool{false, true} {
							for rot := 0; rot < 2; rot++ {
								e2e++
								if e2e%shards != shard {
									continue
								}
								rc := int64(th)*int64(target)*cc/100 + eps
								if rc <= 0 {
									continue
								}
								p := c05Case{N: 0, C: cc, M: mm, T: th, ReqCPU: rc, ReqMem: 1, NoCache: nocache, EndToEnd: true}
								s := c05FromZero(p, rot)
								s.Monitors = func() []h.Monitor { return []h.Monitor{FromZeroAmount{p}} }
								gridCase(t, c, s, p)
								c.Nontrivial(fmt.Sprintf("e2e/%d/%d/%d/%d/%v/%d", cc, mm, th, rc, nocache, rot))
							}
						}
					}
				}
			}
		}
	}
}

func c05Replay(t *testing.T, raw []byte) []string {
	var p c05Case
	if err := json.Unmarshal(raw, &p); err != nil {
		return []string{err.Error()}
	}
	if p.EndToEnd {
		s := c05FromZero(p, 0)
		s.Monitors = func() []h.Monitor { return []h.Monitor{FromZeroAmount{p}} }
		if p.U > 0 {
			s = c05Mixed(p)
			s.Monitors = func() []h.Monitor { return []h.Monitor{NewDecisions()} }
		}
		hh := RunCase(t, s)
		out := append([]string{fmt.Sprintf("case %+v", p)}, hh.Trace...)
		for _, v := range hh.Viol {
			out = append(out, fmt.Sprintf("VIOLATION property=%s signature=%s: %s", v.Prop, v.Sig, v.Msg))
		}
		return out
	}
	np, nmin, domain, err := c05Eval(p)
	return []string{fmt.Sprintf("case %+v: in-domain=%v result nodes=%d minimal nodes=%d err=%v", p, domain, np, nmin, err)}
}

func init() {
	register(&Check{
		ID:    "C05",
		Level: "model_checking",
		Rule: "bounded-exhaustive grid through the real percent and delta arithmetic: n 0..6 (12 thorough) equal nodes x node CPU sizes x memory sizes x thresholds 1..100,120,150,200 x every target n..n+10 with requests exactly on 100*R = T*N*size and +/-1 unit, CPU-bound, memory-bound and both, plus an interior sweep; " +
			"end to end on the real controller: single scans of groups holding tainted, cordoned (odd-sized) and force-tainted nodes next to 1..4 untainted ones, with the ASG's desired capacity equal to or ahead of its instance count; two- and three-scan scale-from-zero histories (cached size from the first listed node, two list orders; the node size changing before the group drains; never having seen a node); mixed groups explored with every get / update of the untaint loop failing; groups at min_nodes with an over-age node and high utilisation; clusters of 100..1000 nodes of 256 GiB. " +
			"non-trivial = cases where exact and float utilisation exceed the threshold; distinct = (n, sizes, threshold, requests)",
		Grid:            c05Grid,
		ReplayCase:      c05Replay,
		Scenarios:       C05FaultScenarios,
		ShardByScenario: true,
		Monitors:        func() []h.Monitor { return []h.Monitor{NewDecisions()} },
		Bound: func(tier string) int {
			if tier == "thorough" {
				return 2
			}
			return 1
		},
		Nontrivial:  seenKeys,
		Assumptions: append([]string{"oracle: N_min = least N with 100*R_cpu <= T*N*c and 100*R_mem <= T*N*m in integer arithmetic; magnitudes beyond 12 nodes x 256 GiB are not covered (no random tier: the family is exhaustive enumeration)"}, commonAssumptions...),
	})
}
