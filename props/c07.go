package props

import (
	"fmt"
	"time"

	v1 "k8s.io/api/core/v1"

	"verif/h"
	"verif/sim"
)

// ---------------------------------------------------------------------------------------------
// C07 — tainted nodes are reused (newest first) before capacity is bought

type c07Case struct {
	U, T, F int
	Pattern string // creation-time pattern of the tainted nodes: asc | desc | equal | pairs
	Order   string // list order: ut (untainted first) | tu | rev
	Mode    string // restore | up
	N       int    // nodes needed
	Fleet   bool
	Tight   bool // cloud max leaves room for exactly one more node
	// Taint describes the tainted nodes' state: fresh (tainted 1q ago) | expired (5q ago, past the hard
	// grace period) | annotated (fresh, the newest one carries the no-delete annotation) | noexecute /
	// prefer (the group's taint_effect is NoExecute / PreferNoSchedule and the taints carry it) |
	// busy-old (fresh; the oldest tainted node still runs a pod, the newer ones are idle) |
	// maxnodes-at-count (fresh; max_nodes equals the number of registered nodes, so that room appears
	// only through the force-tainted nodes removed earlier in the scan) | big-tainted / small-tainted
	// (fresh; the tainted nodes are twice / half the size of the untainted ones: an untainted node is
	// one node, whatever its size) | cordoned-tainted (fresh; one more node, the newest of all, carries the
	// escalator taint and is cordoned: it is out of the picture) | maxage (fresh; max_node_age 20m30s, so the
	// older tainted nodes are over age: they are reused all the same)
	Taint string
}

func (p c07Case) name() string {
	return fmt.Sprintf("c07.U%dT%dF%d.%s.%s.%s.N%d.fleet%v.tight%v.%s", p.U, p.T, p.F, p.Pattern, p.Order, p.Mode, p.N, p.Fleet, p.Tight, p.Taint)
}

func c07Ages(pattern string, n int) []int {
	out := make([]int, n)
	for i := range out {
		switch pattern {
		case "asc":
			out[i] = 20 + i
		case "desc":
			out[i] = 20 + n - i
		case "equal":
			out[i] = 20
		case "pairs":
			out[i] = 20 + 2*(i/2)
		}
	}
	return out
}

func c07Build(p c07Case) *h.Scenario {
	g := StdGroup("g1")
	g.Opts.MaxNodes = 12
	g.ASG.Max = 12
	g.Opts.MinNodes = 0
	if p.Mode == "restore" {
		g.Opts.MinNodes = p.U + p.N
	}
	if p.Tight {
		g.ASG.Max = int64(p.U + p.T + p.F + 1)
	}
	if p.Fleet {
		g.Opts.AWS.LaunchTemplateID, g.Opts.AWS.LaunchTemplateVersion = "lt-1", "1"
	}
	switch p.Taint {
	case "noexecute":
		g.Opts.TaintEffect = v1.TaintEffectNoExecute
	case "prefer":
		g.Opts.TaintEffect = v1.TaintEffectPreferNoSchedule
	case "maxnodes-at-count":
		g.Opts.MaxNodes = p.U + p.T + p.F
	case "maxage":
		g.Opts.MaxNodeAge = "20m30s"
	}
	return &h.Scenario{
		Name:             p.name(),
		CovName:          "c07.grid",
		Groups:           []h.GroupSpec{g},
		Slots:            1,
		Quantum:          Q,
		FaultOps:         map[string]bool{sim.OpK8sGet: true, sim.OpK8sUpdate: true},
		MaxEventsPerSlot: 1,
		// the API persistently rejecting one tainted node (one deviation) next to the per-call failures
		Events: func(hh *h.Hist, slot int) []h.Event {
			var ev []h.Event
			for _, n := range groupNodes(hh, g, 8) {
				if _, tainted := h.HasTaint(n, h.TaintKey); tainted {
					ev = append(ev, evRejectNode(n.Name), evVanishFromStore(n.Name))
				}
			}
			return ev
		},
		Init: func(hh *h.Hist) {
			a := InitASGs(hh)[0]
			type nd struct {
				kind string
				age  int
			}
			var us, ts []nd
			for i := 0; i < p.U; i++ {
				us = append(us, nd{"u", 40 + i})
			}
			for _, ag := range c07Ages(p.Pattern, p.T) {
				ts = append(ts, nd{"t", ag})
			}
			for i := 0; i < p.F; i++ {
				ts = append(ts, nd{"f", 50 + i})
			}
			var all []nd
			switch p.Order {
			case "ut":
				all = append(append(all, us...), ts...)
			case "tu":
				all = append(append(all, ts...), us...)
			case "rev":
				all = append(append(all, us...), ts...)
				for i, j := 0, len(all)-1; i < j; i, j = i+1, j-1 {
					all[i], all[j] = all[j], all[i]
				}
			}
			firstT := true
			for _, x := range all {
				o := sim.NodeOpt{Age: time.Duration(x.age) * Q}
				switch x.kind {
				case "t":
					o.TaintAge = dp(1 * Q)
					if p.Taint == "expired" {
						o.TaintAge = dp(5 * Q)
					}
					if p.Taint == "annotated" && firstT {
						o.Annotation = "keep"
					}
					o.TaintEffect = g.Opts.TaintEffect
					switch p.Taint {
					case "big-tainted":
						o.CPUMilli, o.MemBytes = 2000, 8<<30
					case "small-tainted":
						o.CPUMilli, o.MemBytes = 500, 2<<30
					}
					firstT = false
				case "f":
					o.ForceTaint = true
				}
				hh.W.AddNode(a, o)
			}
			if p.Taint == "cordoned-tainted" {
				hh.W.AddNode(a, sim.NodeOpt{Age: 1 * Q, TaintAge: dp(1 * Q), Cordoned: true})
			}
			if p.Taint == "busy-old" {
				var oldest *v1.Node
				for _, n := range hh.W.Nodes {
					if _, t := h.HasTaint(n, h.TaintKey); t && (oldest == nil || n.CreationTimestamp.Time.Before(oldest.CreationTimestamp.Time)) {
						oldest = n
					}
				}
				if oldest != nil {
					hh.W.AddPod(podOn(g, oldest.Name, 50))
				}
			}
			if p.Mode == "up" {
				// requests chosen so that the minimal sufficient node count is exactly U+N
				hh.W.AddPod(podOn(g, "", int64(700*(p.U+p.N))))
			} else {
				hh.W.AddPod(podOn(g, "", 100))
			}
		},
	}
}

func c07Cases(tier string) []c07Case {
	var out []c07Case
	maxT := 3
	if tier == "thorough" {
		maxT = 4
	}
	for _, mode := range []string{"restore", "up"} {
		for u := 1; u <= 2; u++ {
			for t := 0; t <= maxT; t++ {
				for f := 0; f <= 2; f++ {
					for _, pat := range []string{"asc", "desc", "equal", "pairs"} {
						if t < 2 && pat != "asc" {
							continue
						}
						for _, ord := range []string{"ut", "tu", "rev"} {
							if tier != "thorough" && ord == "tu" {
								continue
							}
							for n := 1; n <= 5; n++ {
								if mode == "restore" && u+n > u+t+f {
									continue // node count would be under the minimum
								}
								for _, fleet := range []bool{false, true} {
									for _, tight := range []bool{false, true} {
										if fleet && tier != "thorough" && (pat == "pairs" || ord == "rev") {
											continue
										}
										out = append(out, c07Case{u, t, f, pat, ord, mode, n, fleet, tight, "fresh"})
										if t > 0 && pat == "asc" && ord == "ut" && !fleet {
											out = append(out, c07Case{u, t, f, pat, ord, mode, n, fleet, tight, "expired"}, c07Case{u, t, f, pat, ord, mode, n, fleet, tight, "annotated"},
												c07Case{u, t, f, pat, ord, mode, n, fleet, tight, "noexecute"}, c07Case{u, t, f, pat, ord, mode, n, fleet, tight, "prefer"},
												c07Case{u, t, f, pat, ord, mode, n, fleet, tight, "busy-old"}, c07Case{u, t, f, pat, ord, mode, n, fleet, tight, "maxnodes-at-count"},
												c07Case{u, t, f, pat, ord, mode, n, fleet, tight, "big-tainted"}, c07Case{u, t, f, pat, ord, mode, n, fleet, tight, "small-tainted"},
												c07Case{u, t, f, pat, ord, mode, n, fleet, tight, "cordoned-tainted"}, c07Case{u, t, f, pat, ord, mode, n, fleet, tight, "maxage"})
										}
									}
								}
							}
						}
					}
				}
			}
		}
	}
	return out
}

// c07Rebuild: several scale-ups in a row (cool-down of one scan) with the provider rebuilt after a
// failed refresh in between: every request must be computed on the live desired size.
func c07Rebuild(fleet bool) *h.Scenario {
	g := StdGroup("g1")
	g.Opts.MaxNodes = 12
	g.ASG.Max = 12
	g.Opts.ScaleUpCoolDownPeriod = dur(1)
	name := "c07.rebuild.setdesired"
	if fleet {
		g.Opts.AWS.LaunchTemplateID, g.Opts.AWS.LaunchTemplateVersion = "lt-1", "1"
		name = "c07.rebuild.fleet"
	}
	return &h.Scenario{Name: name, Groups: []h.GroupSpec{g}, Slots: 5, Quantum: Q, MaxEventsPerSlot: 2, BoundExact: 2, Prune: true,
		Init: func(hh *h.Hist) {
			a := InitASGs(hh)[0]
			for i := 0; i < 2; i++ {
				n := hh.W.AddNode(a, sim.NodeOpt{Age: time.Duration(10+i) * Q})
				hh.W.AddPod(podOn(g, n.Name, 800))
			}
			hh.W.AddNode(a, sim.NodeOpt{Age: 30 * Q, TaintAge: dp(0)})
			hh.W.AddPod(podOn(g, "", 1000))
		},
		Events: func(hh *h.Hist, slot int) []h.Event {
			return []h.Event{evRefreshFails(), evBurst(g, 2, 1000), evBurst(g, 1, 700), evSkipSettle(), evRestart()}
		},
	}
}

// c07Retry: an untaint write fails in one scale-up scan (the next tainted node makes up for it); a
// later scale-up scan must try that node again.
func c07Retry() *h.Scenario {
	g := StdGroup("g1")
	g.Opts.MaxNodes, g.ASG.Max = 12, 12
	g.Opts.MinNodes = 0
	return &h.Scenario{Name: "c07.retry-after-failed-untaint", Groups: []h.GroupSpec{g}, Slots: 4, Quantum: Q, MaxEventsPerSlot: 1, BoundExact: 2, Prune: true,
		FaultOps: map[string]bool{sim.OpK8sGet: true, sim.OpK8sUpdate: true},
		Init: func(hh *h.Hist) {
			a := InitASGs(hh)[0]
			for i := 0; i < 2; i++ {
				n := hh.W.AddNode(a, sim.NodeOpt{Age: time.Duration(40+i) * Q})
				hh.W.AddPod(podOn(g, n.Name, 750)) // 75 %: one more node needed, no cloud call (no cool-down)
			}
			for i := 0; i < 3; i++ {
				hh.W.AddNode(a, sim.NodeOpt{Age: time.Duration(20+i) * Q, TaintAge: dp(0)})
			}
		},
		Events: func(hh *h.Hist, slot int) []h.Event {
			return []h.Event{evBurst(g, 1, 1400), evBurst(g, 1, 700)}
		},
	}
}

func C07Scenarios(tier string) []*h.Scenario {
	out := []*h.Scenario{c07Rebuild(false), c07Rebuild(true), c07Retry()}
	for _, p := range c07Cases(tier) {
		out = append(out, c07Build(p))
	}
	return out
}

func init() {
	register(&Check{
		ID:    "C07",
		Level: "model_checking",
		Rule: "every single-scan case (untainted 1..2, tainted 0..3/4 with ascending/descending/equal/paired creation times, tainted nodes fresh / already past their grace period / carrying the no-delete annotation / tainted with a non-default taint_effect, force-tainted empty 0..2 removed earlier in the scan, list orders, restore|up, need 1..5, SetDesiredCapacity|fleet, loose|tight cloud max) explored with every get/update of the untaint loop failing " +
			"(1 fault quick, 2 thorough); non-trivial = scans whose reference class is up/restore; distinct = (case, class, |U|,|T|,|F|, observed untaints/requests)",
		Scenarios:       C07Scenarios,
		ShardByScenario: true,
		Monitors:        func() []h.Monitor { return []h.Monitor{NewDecisions()} },
		Bound: func(tier string) int {
			if tier == "thorough" {
				return 3 // K = 3 completes in under a minute (1.2 M executions)
			}
			return 1
		},
		Nontrivial:  seenKeys,
		Assumptions: commonAssumptions,
		Alphabet:    []string{"grid of initial worlds", "fail at k8s get/update (every position of the untaint loop)"},
	})
}
